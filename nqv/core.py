"""Core services shared by every check: seeds, budgets, parallel case runner with
watchdogs, violation bookkeeping (keys, known findings, replay files) and the evidence
writer.  See DESIGN.md section 1 (verdict discipline)."""
import hashlib
import json
import os
import random
import signal
import sys
import time
import traceback
from concurrent.futures import ProcessPoolExecutor
from concurrent.futures import TimeoutError as _FutTimeout, as_completed

VERIF = os.path.dirname(os.path.dirname(os.path.abspath(__file__)))
REPO = os.environ.get("NQV_SRC", "/repo")
JOBS = int(os.environ.get("NQV_JOBS", "16"))
BUDGET = float(os.environ.get("VERIF_BUDGET", "1"))


def seed():
    try:
        return int(os.environ.get("VERIF_SEED", "1"))
    except ValueError:
        return 1


def case_rng(prop, i, salt=""):
    """Deterministic PRNG for case i of a property under the global seed."""
    h = hashlib.sha256(("%d/%s/%s/%s" % (seed(), prop, salt, i)).encode()).digest()
    return random.Random(int.from_bytes(h[:8], "big"))


def scaled(n, lo=1):
    return max(lo, int(n * BUDGET))


def hx(b):
    """printable rendering of a byte string for samples / witnesses"""
    if isinstance(b, str):
        return b
    out = []
    for c in b:
        if c == 0x5c:
            out.append("\\\\")
        elif 32 <= c < 127:
            out.append(chr(c))
        elif c == 10:
            out.append("\\n")
        elif c == 13:
            out.append("\\r")
        elif c == 9:
            out.append("\\t")
        elif c == 0:
            out.append("\\0")
        else:
            out.append("\\x%02x" % c)
    return "".join(out)


class Inconclusive(Exception):
    """harness failure / nothing decided: exit 2, never a violation"""


class Counter(dict):
    def inc(self, k, n=1):
        self[k] = self.get(k, 0) + n

    def merge(self, other):
        for k, v in other.items():
            if isinstance(v, (int, float)) and k.startswith("max_"):
                self[k] = max(self.get(k, 0), v)
            elif isinstance(v, (int, float)):
                self[k] = self.get(k, 0) + v
            elif isinstance(v, dict):
                d = self.setdefault(k, {})
                for kk, vv in v.items():
                    d[kk] = d.get(kk, 0) + vv
            elif isinstance(v, (set, frozenset)):
                self[k] = set(self.get(k, set())) | set(v)
            elif isinstance(v, list):
                l = self.setdefault(k, [])
                for x in v:
                    if len(l) < 12:
                        l.append(x)


class Result:
    """What a worker (or a whole check) reports back.  Picklable."""

    def __init__(self):
        self.counters = Counter()      # numeric / dict-of-numeric / set / list(samples)
        self.violations = []           # dicts {key, why, witness}
        self.inconclusive = []         # strings
        self.distinct = set()          # hashes of distinct non-trivial cases
        self.evaluations = 0
        self.samples = []
        self.distinct_extra = 0        # distinct non-trivial cases counted elsewhere (harness hash sets)

    def violate(self, key, why, witness=None):
        n = sum(1 for v in self.violations if v["key"] == key) if len(self.violations) < 2000 else 99
        if n < 4:
            self.violations.append({"key": key, "why": why, "witness": witness})
        self.counters.inc("violations_raw")

    def nontrivial(self, *parts):
        h = hashlib.blake2b(repr(parts).encode("utf-8", "replace"), digest_size=8).digest()
        self.distinct.add(h)

    def sample(self, s, cap=6):
        if len(self.samples) < cap:
            self.samples.append(s)

    def merge(self, o):
        self.counters.merge(o.counters)
        for v in o.violations:
            n = sum(1 for x in self.violations if x["key"] == v["key"])
            if n < 4 and len(self.violations) < 2000:
                self.violations.append(v)
        self.inconclusive.extend(o.inconclusive[:50])
        self.distinct |= o.distinct
        self.evaluations += o.evaluations
        self.distinct_extra += o.distinct_extra
        for s in o.samples:
            if len(self.samples) < 10:
                self.samples.append(s)


def _worker_entry(fn, args):
    # pool workers never run atexit handlers: scratch directories made during this call are removed here
    from . import build as _b
    mark = len(_b._tmpdirs)
    try:
        return _worker_call(fn, args)
    finally:
        import shutil
        for pid, d in _b._tmpdirs[mark:]:
            if pid == os.getpid():
                shutil.rmtree(d, ignore_errors=True)
        del _b._tmpdirs[mark:]


def _worker_call(fn, args):
    try:
        return fn(*args)
    except Inconclusive as e:
        r = Result()
        r.inconclusive.append("worker: %s" % e)
        return r
    except Exception:
        r = Result()
        r.inconclusive.append("worker exception: " + traceback.format_exc()[-1500:])
        return r


def pmap(fn, arglist, jobs=None, timeout=3600):
    """Run fn(*args) for every args in arglist on a process pool; merge the Results.
    A worker that dies or times out contributes an 'inconclusive' entry."""
    jobs = jobs or JOBS
    total = Result()
    if not arglist:
        return total
    if jobs == 1 or len(arglist) == 1:
        for a in arglist:
            total.merge(_worker_entry(fn, a))
        return total
    ex = ProcessPoolExecutor(max_workers=min(jobs, len(arglist)), initializer=_init_worker)
    hung = False
    try:
        futs = [ex.submit(_worker_entry, fn, a) for a in arglist]
        deadline = time.time() + timeout
        for f in futs:
            try:
                r = f.result(timeout=max(1, deadline - time.time()))
                total.merge(r)
            except Exception as e:  # timeout, BrokenProcessPool
                total.inconclusive.append("worker failed: %r" % (e,))
                if isinstance(e, (TimeoutError, _FutTimeout)):
                    hung = True
    finally:
        if hung:
            # a worker that is stuck would make shutdown() wait for ever: kill it with everything it started
            for p in list(getattr(ex, "_processes", {}).values()):
                try:
                    os.killpg(p.pid, signal.SIGKILL)
                except (OSError, ProcessLookupError):
                    try:
                        p.kill()
                    except Exception:
                        pass
            ex.shutdown(wait=False, cancel_futures=True)
        else:
            ex.shutdown(wait=True)
    return total


def _init_worker():
    """own process group (so that a stuck worker can be killed with its children) and death with the parent"""
    try:
        os.setpgrp()
    except OSError:
        pass
    try:
        import ctypes
        ctypes.CDLL("libc.so.6", use_errno=True).prctl(1, int(signal.SIGKILL), 0, 0, 0)      # PR_SET_PDEATHSIG
    except Exception:
        pass


def arm_watchdog(prop, seconds):
    """hard limit for one whole check: a hang must end as 'inconclusive', never as silence"""
    def fire(signum, frame):
        try:
            print("INCONCLUSIVE property=%s: watchdog - the check did not finish within %d s" % (prop, seconds), flush=True)
            for c in _children_pgids():
                try:
                    os.killpg(c, signal.SIGKILL)
                except OSError:
                    pass
        finally:
            os._exit(2)
    signal.signal(signal.SIGALRM, fire)
    signal.alarm(int(seconds))


def _children_pgids():
    out = set()
    me = os.getpid()
    try:
        for d in os.listdir("/proc"):
            if not d.isdigit():
                continue
            try:
                with open("/proc/%s/stat" % d) as f:
                    st = f.read()
                rest = st[st.rindex(")") + 2:].split()
                ppid, pgrp = int(rest[1]), int(rest[2])
                if ppid == me and pgrp != os.getpgrp():
                    out.add(pgrp)
            except (OSError, ValueError):
                pass
    except OSError:
        pass
    return out


def chunks(n, k):
    """split range(n) into k contiguous (lo,hi) pieces"""
    if n <= 0:
        return []
    k = max(1, min(k, n))
    step = (n + k - 1) // k
    return [(lo, min(n, lo + step)) for lo in range(0, n, step)]


# ------------------------------------------------------------------ findings / verdict

def load_findings():
    p = os.path.join(VERIF, "known_findings.json")
    if not os.path.exists(p):
        return []
    with open(p) as f:
        return json.load(f)


def finish(prop, tier, level, res, rule, t0, assumptions=None, extra=None,
           min_distinct=2, exhaustive=None):
    """Print verdict lines, write evidence (+ replay files), return the exit code."""
    os.makedirs(os.path.join(VERIF, "evidence"), exist_ok=True)
    os.makedirs(os.path.join(VERIF, "replay"), exist_ok=True)
    findings = load_findings()
    known = {f["key"]: f for f in findings if f.get("property") == prop and f.get("status") == "known"}
    by_key = {}
    for v in res.violations:
        by_key.setdefault(v["key"], []).append(v)
    new_keys, known_hit = [], []
    for k, vs in sorted(by_key.items()):
        if k in known:
            known_hit.append(k)
        else:
            new_keys.append(k)
    for k in known_hit:
        print("KNOWN-FINDING: property=%s %s [%s; %d occurrence(s) this run]" % (
            prop, known[k].get("what", k), k, len(by_key[k])))
    for k in new_keys:
        safe = "".join(c if c.isalnum() or c in "-_." else "_" for c in k)[:120]
        path = os.path.join(VERIF, "replay", "%s-%s.json" % (prop, safe))
        with open(path, "w") as f:
            json.dump({"property": prop, "key": k, "seed": seed(), "tier": tier,
                       "occurrences": len(by_key[k]),
                       "cases": by_key[k][:5]}, f, indent=1, default=_json_default)
        print("VIOLATION property=%s replay=%s" % (prop, path))
        print("  key=%s why=%s" % (k, by_key[k][0]["why"]))
    cov = {
        "evaluations": int(res.evaluations),
        "distinct_nontrivial": len(res.distinct) + res.distinct_extra,
        "rule": rule,
        "samples": res.samples[:10] or ["(none)"],
        "inconclusive": len(res.inconclusive),
        "inconclusive_samples": res.inconclusive[:5],
        "violation_keys": sorted(by_key.keys()),
        "known_finding_keys_seen": known_hit,
    }
    if exhaustive is not None:
        cov["exhaustive"] = bool(exhaustive)
    for k, v in res.counters.items():
        if isinstance(v, (set, frozenset)):
            lst = sorted(v, key=repr)
            cov[k] = len(lst)
            cov[k + "_list"] = [x if isinstance(x, (int, str)) else repr(x) for x in lst[:60]]
        else:
            cov[k] = v
    if extra:
        cov.update(extra)
    ev = {
        "property_id": prop, "tier": tier, "seed": seed(), "level": level,
        "coverage": cov,
        "assumptions": assumptions or [],
        "wall_s": round(time.time() - t0, 2),
        "violations": len(new_keys),
    }
    with open(os.path.join(VERIF, "evidence", "%s.json" % prop), "w") as f:
        json.dump(ev, f, indent=1, default=_json_default)
    if new_keys:
        return 1
    if res.inconclusive and (len(res.inconclusive) > max(3, res.evaluations // 200)):
        print("INCONCLUSIVE property=%s: %d inconclusive cases, e.g. %s" % (
            prop, len(res.inconclusive), res.inconclusive[0][:400]))
        return 2
    if res.evaluations < 1 or len(res.distinct) + res.distinct_extra < min_distinct:
        print("INCONCLUSIVE property=%s: observed too little (evaluations=%d distinct=%d)" % (
            prop, res.evaluations, len(res.distinct) + res.distinct_extra))
        return 2
    print("OK property=%s tier=%s evaluations=%d distinct_nontrivial=%d inconclusive=%d wall=%.1fs" % (
        prop, tier, res.evaluations, len(res.distinct) + res.distinct_extra, len(res.inconclusive), time.time() - t0))
    return 0


def _json_default(o):
    if isinstance(o, bytes):
        return hx(o)
    if isinstance(o, (set, frozenset)):
        return sorted(o, key=repr)
    return repr(o)


def run_with_watchdog(argv, timeout, **kw):
    """subprocess.run in its own process group; the whole group is killed on timeout.
    Returns (rc, stdout, stderr); rc None on timeout."""
    import subprocess
    p = subprocess.Popen(argv, stdout=subprocess.PIPE, stderr=subprocess.PIPE,
                         start_new_session=True, **kw)
    try:
        out, err = p.communicate(timeout=timeout)
        return p.returncode, out, err
    except subprocess.TimeoutExpired:
        try:
            os.killpg(p.pid, signal.SIGKILL)
        except ProcessLookupError:
            pass
        out, err = p.communicate()
        return None, out, err
