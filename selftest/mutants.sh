#!/bin/bash
# Kill matrix of hand-written mutants for the engine checks (see DESIGN.md 7.5). Each entry applies textual edits to a
# scratch worktree of /repo, builds it, runs the unit tests and then the named check with NQV_SRC pointing at it.
cd /verif
echo "== Z marks done"; selftest/mutate.py C03 qmail-send.c "	 case 'Z':
	   log3(\"delivery \",strnum3,\": deferral: \");
	   logsafe(dline[c].s + 2);
	   log1(\"\\\\n\");
	   break;" "	 case 'Z':
	   log3(\"delivery \",strnum3,\": deferral: \");
	   logsafe(dline[c].s + 2);
	   log1(\"\\\\n\");
	   markdone(c,jo[d[c][delnum].j].id,d[c][delnum].mpos);
	   break;"
echo "== job_close ignores flaghiteof"; selftest/mutate.py C03 qmail-send.c " if (jo[j].flaghiteof && !jo[j].numtodo)" " if (!jo[j].numtodo)"
echo "== messdone ignores injectbounce result"; selftest/mutate.py C03 qmail-send.c " if (!injectbounce(id))
   goto fail; /* injectbounce() produced error message */" " injectbounce(id);"
echo "== no fsync of channel files"; selftest/mutate.py C03 qmail-send.c "     if (fsync(fdchan[c]) == -1)
      { log3(\"warning: trouble fsyncing \",fn.s,\"\\\\n\"); goto fail; }" "     "
echo "== garbled report counts as success"; selftest/mutate.py C03 qmail-send.c "	 default:
	   log3(\"delivery \",strnum3,\": report mangled, will defer\\\\n\");" "	 default:
	   log3(\"delivery \",strnum3,\": report mangled, will defer\\\\n\");
	   markdone(c,jo[d[c][delnum].j].id,d[c][delnum].mpos);
	   --jo[d[c][delnum].j].numtodo;"
echo "== numtodo decremented on Z"; selftest/mutate.py C03 qmail-send.c "	   logsafe(dline[c].s + 2);
	   log1(\"\\\\n\");
	   break;
	 case 'D':" "	   logsafe(dline[c].s + 2);
	   log1(\"\\\\n\");
	   --jo[d[c][delnum].j].numtodo;
	   break;
	 case 'D':"
echo "== drop maildir fsync"; selftest/mutate.py C12 qmail-local.c " if (fsync(fd) == -1) goto fail;
 if (close(fd) == -1) goto fail; /* NFS dorks */" " if (close(fd) == -1) goto fail; /* NFS dorks */"
echo "== link before close/flush"; selftest/mutate.py C12 qmail-local.c " if (substdio_flush(&ssout) == -1) goto fail;
 if (fsync(fd) == -1) goto fail;
 if (close(fd) == -1) goto fail; /* NFS dorks */

 if (link(fntmptph,fnnewtph) == -1) goto fail;" " if (link(fntmptph,fnnewtph) == -1) goto fail;
 if (substdio_flush(&ssout) == -1) goto fail;
 if (fsync(fd) == -1) goto fail;
 if (close(fd) == -1) goto fail; /* NFS dorks */
"
echo "== drop seek_trunc"; selftest/mutate.py C12 qmail-local.c " writeerrs:
 strerr_warn5(\"Unable to write \",fn,\": \",error_str(errno),\". (#4.3.0)\",0);
 if (flaglocked) seek_trunc(fd,pos);" " writeerrs:
 strerr_warn5(\"Unable to write \",fn,\": \",error_str(errno),\". (#4.3.0)\",0);"
echo "== gfrom only plain From"; selftest/mutate.py C12 gfrom.c "while ((len > 0) && (*s == '>')) { ++s; --len; }" ""
echo "== no blank after partial last line"; selftest/mutate.py C12 qmail-local.c "   if (!match)
    {
     if (substdio_bputs(&ssout,\"\\\\n\")) goto writeerrs;
     break;
    }" "   if (!match)
    {
     break;
    }"
echo "== skip lock_ex"; selftest/mutate.py C12 qmail-local.c " flaglocked = (lock_ex(fd) != -1);" " flaglocked = 1;"
echo "== maildir newline in recipient not replaced"; selftest/mutate.py C12 qmail-local.c " for (i = 0;i < dtline.len;++i) if (dtline.s[i] == '\\\\n') dtline.s[i] = '_';" " "
echo "== trigger re-armed at end of scan"; selftest/mutate.py C16 qmail-send.c "   trigger_set();
   tododir = opendir(\"todo\");" "   tododir = opendir(\"todo\");" qmail-send.c "   closedir(tododir);
   tododir = 0;
   return;" "   closedir(tododir);
   tododir = 0;
   trigger_set();
   return;"
echo "== nexttodorun never armed / sleeps forever"; selftest/mutate.py C16 qmail-send.c " if (*wakeup > nexttodorun) *wakeup = nexttodorun;" " "
echo "== wakeup not reset while tododir open"; selftest/mutate.py C16 qmail-send.c " if (tododir) *wakeup = 0;" " "
echo "== injector pulls trigger before link"; selftest/mutate.py C16 qmail-queue.c " if (link(intdfn,todofn) == -1) die(66);

 triggerpull();" " triggerpull();
 if (link(intdfn,todofn) == -1) die(66);
"
echo "== SLEEP_FUZZ sign"; selftest/mutate.py C16 qmail-send.c "else tv.tv_sec = wakeup - recent + SLEEP_FUZZ;" "else tv.tv_sec = wakeup - recent + 30;"
echo "== C03 messdone ignores injectbounce result"; selftest/mutate.py C03 qmail-send.c " if (!injectbounce(id))
   goto fail; /* injectbounce() produced error message */" " injectbounce(id);"
echo "== C14 drop nn->n/ loop"; selftest/mutate.py C14 qmail-send.c "     if (bouncetext.s[pos - 1] == '\\\\n')
       bouncetext.s[pos] = '/';" "     if (bouncetext.s[pos - 1] == '\\\\n')
       bouncetext.s[pos] = '\\\\n';"
echo "== C14 #@[] test removed (double bounce of double bounce)"; selftest/mutate.py C14 qmail-send.c " if (str_equal(sender.s,\"#@[]\"))
   log3(\"triple bounce: discarding \",fn2.s,\"\\\\n\");
 else" " if (0)
   log3(\"triple bounce: discarding \",fn2.s,\"\\\\n\");
 else"
echo "== C14 stripvdomprepend not applied"; selftest/mutate.py C14 qmail-send.c " while (!stralloc_cats(&bouncetext,stripvdomprepend(recip))) nomem();" " while (!stralloc_cats(&bouncetext,recip)) nomem();"
echo "== C14 -@[] strip length"; selftest/mutate.py C14 qmail-send.c "     sender.len -= 4;
     sender.s[sender.len - 1] = 0;" "     sender.len -= 5;
     sender.s[sender.len - 1] = 0;"
echo "== C14 unlink bounce before qmail_close"; selftest/mutate.py C14 qmail-send.c "   qmail_from(&qqt,bouncesender);
   qmail_to(&qqt,bouncerecip);" "   unlink(fn2.s);
   qmail_from(&qqt,bouncesender);
   qmail_to(&qqt,bouncerecip);"
echo "== C04 case D starts delivery"; selftest/mutate.py C04 qmail-send.c "   case 'D':
     break;
   default:
     fnmake_chanaddr(pass[c].id,c);" "   case 'D':
     ++jo[pass[c].j].numtodo;
     del_start(pass[c].j,pass[c].mpos,line.s + 1);
     break;
   default:
     fnmake_chanaddr(pass[c].id,c);"
echo "== C04 del_avail <="; selftest/mutate.py C04 qmail-send.c "(concurrencyused[c] < concurrency[c]);" "(concurrencyused[c] <= concurrency[c]);"
echo "== C04 startup clamp dropped"; selftest/mutate.py C04 qmail-send.c "   if (concurrency[c] > u) concurrency[c] = u;" "   "
echo "== C04 pass ignores flagexitasap"; selftest/mutate.py C04 qmail-send.c "void pass_dochan(c)
int c;
{
 datetime_sec birth;
 struct prioq_elt pe;
 static stralloc line = {0};
 int match;

 if (flagexitasap) return;" "void pass_dochan(c)
int c;
{
 datetime_sec birth;
 struct prioq_elt pe;
 static stralloc line = {0};
 int match;
"
echo "== C02 clean swaps U lines (mess before intd)"; selftest/mutate.py C02 qmail-clean.c "     U(\"intd/\",0)
     U(\"mess/\",1)" "     U(\"mess/\",1)
     U(\"intd/\",0)"
echo "== C02 OSSIFIED 12h"; selftest/mutate.py C02 qmail-send.c "#define OSSIFIED 129600 /* 36 hours; _must_ exceed q-q's DEATH (24 hours) */" "#define OSSIFIED 43200 /* 36 hours; _must_ exceed q-q's DEATH (24 hours) */"
echo "== C02 messdone unlinks info before channel check"; selftest/mutate.py C02 qmail-send.c " fnmake_chanaddr(jo[j].id,jo[j].channel);
   if (unlink(fn.s) == -1)" " fnmake_info(jo[j].id); unlink(fn.s); fnmake_chanaddr(jo[j].id,jo[j].channel);
   if (unlink(fn.s) == -1)"
echo "== C02 drop lock_exnb"; selftest/mutate.py C02 qmail-send.c " if (lock_exnb(fd) == -1)" " if (0)"
echo "== C02 cleanup_do ignores todo"; selftest/mutate.py C02 qmail-send.c " fnmake_todo(id);
 if (stat(fn.s,&st) == 0) return;
 if (errno != error_noent) return;

 fnmake_foop(id);" " fnmake_foop(id);"
