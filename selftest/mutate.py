#!/usr/bin/env python3
"""selftest/mutate.py <check-id> <file> <old> <new> [<file> <old> <new> ...]
Apply textual edits to a scratch copy of /repo (git worktree under /tmp), make sure it builds
and passes the unit tests, run the check against it (NQV_SRC) and report whether it fired."""
import os, subprocess, sys, shutil, tempfile
def main():
    chk = sys.argv[1]; edits = sys.argv[2:]
    d = tempfile.mkdtemp(prefix="nqv-mut-", dir="/tmp")
    os.rmdir(d)
    subprocess.run(["git", "-C", "/repo", "worktree", "add", "-q", "--detach", d, "HEAD"], check=True)
    try:
        for i in range(0, len(edits), 3):
            f, old, new = edits[i:i+3]
            p = os.path.join(d, f); s = open(p).read()
            old = old.encode().decode("unicode_escape"); new = new.encode().decode("unicode_escape")
            if old not in s:
                print("MUTANT-ERROR: pattern not found in", f); return 3
            open(p, "w").write(s.replace(old, new, 1))
        if os.environ.get("MUT_SKIP_TESTS") != "1":
            r = subprocess.run("make -s -j16 it >/dev/null 2>&1 && make -s -C tests test >/dev/null 2>&1", shell=True, cwd=d)
            if r.returncode != 0:
                print("MUTANT-ERROR: does not build or fails the unit tests"); return 3
            subprocess.run("git clean -fdxq", shell=True, cwd=d)
        env = dict(os.environ, NQV_SRC=d)
        r = subprocess.run(["./check", chk, "--tier", os.environ.get("MUT_TIER", "quick")], cwd="/verif", env=env, capture_output=True, text=True)
        lines = [l for l in r.stdout.splitlines() if l.startswith(("VIOLATION", "  key=", "OK", "INCONCLUSIVE", "KNOWN"))]
        print("rc=%d" % r.returncode); print("\n".join(lines[:12]))
        if r.returncode not in (0, 1): print(r.stdout[-1500:], r.stderr[-1500:])
        return 0
    finally:
        subprocess.run(["git", "-C", "/repo", "worktree", "remove", "--force", d])
        shutil.rmtree(d, ignore_errors=True)
sys.exit(main())
