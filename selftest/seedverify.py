#!/usr/bin/env python3
"""selftest/seedverify.py <seed-id> <property> [<check-to-run> ...]
Confirm an independently produced breaking change kept under seeded/<seed-id>/: its demonstration passes on
the unchanged tree and fails with the change, the changed tree builds and passes the unit tests, and
report what our check(s) say about it (NQV_SRC = scratch worktree with the change applied)."""
import json, os, subprocess, sys, shutil, tempfile, time
def sh(cmd, cwd=None, env=None, timeout=1800):
    p = subprocess.run(cmd, shell=True, cwd=cwd, env=env, capture_output=True, text=True, timeout=timeout)
    return p.returncode, (p.stdout + p.stderr)
def main():
    sid, prop = sys.argv[1], sys.argv[2]
    checks = sys.argv[3:] or [prop]
    sd = os.path.join("/verif/seeded", sid)
    out = {"verified_at": time.strftime("%Y-%m-%d %H:%M:%S"), "repo_head": subprocess.check_output(["git", "-C", "/repo", "log", "-1", "--format=%h"]).decode().strip()}
    d = tempfile.mkdtemp(prefix="nqv-seedv-", dir="/tmp"); os.rmdir(d)
    subprocess.run(["git", "-C", "/repo", "worktree", "add", "-q", "--detach", d, "HEAD"], check=True)
    try:
        demo = os.path.join(sd, "demo.sh")
        rc, o = sh("bash %s %s" % (demo, d), cwd=sd)
        out["demo_on_unchanged"] = {"rc": rc, "tail": o[-300:]}
        sh("git clean -fdxq", cwd=d)
        rc, o = sh("git apply %s" % os.path.join(sd, "patch.diff"), cwd=d)
        out["patch_applies"] = rc == 0
        if rc != 0:
            out["apply_error"] = o[-400:]
        rc, o = sh("make -s -j8 it >/dev/null 2>&1 && make -s -C tests test 2>&1 | tail -3", cwd=d)
        out["changed_builds_and_passes_tests"] = {"rc": rc, "tail": o[-200:]}
        sh("git clean -fdxq", cwd=d)
        rc, o = sh("bash %s %s" % (demo, d), cwd=sd)
        out["demo_on_changed"] = {"rc": rc, "tail": o[-300:]}
        sh("git clean -fdxq", cwd=d)
        out["checks"] = {}
        for c in checks:
            env = dict(os.environ, NQV_SRC=d)
            t0 = time.time()
            rc, o = sh("./check %s --tier %s" % (c, os.environ.get("SEED_TIER", "quick")), cwd="/verif", env=env, timeout=3600)
            lines = [l for l in o.splitlines() if l.startswith(("VIOLATION", "  key=", "OK", "INCONCLUSIVE", "KNOWN"))]
            out["checks"][c] = {"rc": rc, "wall_s": round(time.time() - t0, 1), "lines": lines[:8]}
    finally:
        subprocess.run(["git", "-C", "/repo", "worktree", "remove", "--force", d])
        shutil.rmtree(d, ignore_errors=True)
    mp = os.path.join(sd, "meta.json")
    meta = json.load(open(mp)) if os.path.exists(mp) else {}
    meta["verification"] = out
    json.dump(meta, open(mp, "w"), indent=1)
    print(sid, json.dumps(out, indent=1)[:2500])
main()
