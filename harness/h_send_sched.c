/* C15 arithmetic core: the real qmail-send.c squareroot() and nextretry() (static functions
   reached by source inclusion) against the formula of the property statement.
   usage: h_send_sched sqk                      every k*k-1, k*k, k*k+1 for k = 0..65536 (< 2^32)
          h_send_sched sqrand <n> <seed>         n random arguments in [0, 2^32)
          h_send_sched sqrange <lo> <hi>         every argument in [lo, hi)
          h_send_sched retry <blo> <bhi> <na> <seed>   births number blo..bhi-1 x na ages x 2 channels
                                                 (dense + boundary + random; birth i is a function of (seed, i) only)
          h_send_sched sq1 <x> | retry1 <birth> <age> <chan>     replay of one case
   Reference: isqrt by Newton iteration + fix-up (independent of the bit-by-bit method);
   nextretry(birth, c) = birth + (isqrt(max(0, recent - birth)) + (c == 0 ? 10 : 20))^2 and > recent. */
#include <unistd.h>
#include "nqvh.h"

#define main nqv_send_main
#include "qmail-send.c"
#undef main

static long long cases, nontriv;

/* reference integer square root: Newton iteration from above + fix-up (no libm: qsutil.h's log2 clashes with math.h) */
static unsigned long ref_isqrt(unsigned long x)
{
  unsigned long r, t;
  if (x < 2) return x;
  r = x; t = (r + 1) / 2;
  while (t < r) { r = t; t = (r + x / r) / 2; }
  while (r * r > x) --r;
  while ((r + 1) * (r + 1) <= x) ++r;
  return r;
}

static void viol(const char *key, const char *why, long a, long b, long c, long got)
{
  char in[96], out[48];
  snprintf(in, sizeof in, "%ld %ld %ld", a, b, c);
  snprintf(out, sizeof out, "%ld", got);
  nqv_violation(key, why, (unsigned char *) in, strlen(in), (unsigned char *) out, strlen(out));
}

static void sq(unsigned long x, int count_distinct)
{
  unsigned long y = (unsigned long) squareroot((datetime_sec) x);
  cases++;
  if ((cases & 0x3fffff) == 77) { char t[80]; snprintf(t, sizeof t, "squareroot(%lu)=%lu", x, y); nqv_sample((unsigned char *) t, strlen(t), 1); }
  if (x) { nontriv++; if (count_distinct) nqv_distinct_h(x * 0x9E3779B97F4A7C15ULL + 1); }
  if (!(y * y <= x)) { viol("C15/squareroot/too-large", "squareroot(x)^2>x", (long) x, 0, 0, (long) y); return; }
  if (!(x < (y + 1) * (y + 1))) { viol("C15/squareroot/too-small", "x>=(squareroot(x)+1)^2", (long) x, 0, 0, (long) y); return; }
}

static void retry(long birth, long age, int c)
{
  long r, a, n, want;
  recent = birth + age;
  r = (long) nextretry((datetime_sec) birth, c);
  cases++;
  if ((cases & 0x7ffff) == 4099) { char t[120]; snprintf(t, sizeof t, "nextretry(birth=%ld,chan=%d) with recent=birth%+ld -> birth+%ld", birth, c, age, r - birth); nqv_sample((unsigned char *) t, strlen(t), 1); }
  a = age < 0 ? 0 : age;
  n = (long) ref_isqrt((unsigned long) a) + (c == 0 ? 10 : 20);
  want = birth + n * n;
  if (age != 0) { nontriv++; nqv_distinct_h(((uint64_t) birth * 1000003ULL) ^ ((uint64_t) age * 0x9E3779B97F4A7C15ULL) ^ (uint64_t) c); }
  if (r != want) { viol(c ? "C15/nextretry/formula/remote" : "C15/nextretry/formula/local", "nextretry!=birth+(isqrt(age)+skip)^2", birth, age, c, r); return; }
  if (!(r > recent)) { viol("C15/nextretry/not-in-future", "nextretry<=recent", birth, age, c, r); return; }
}

int main(int argc, char **argv)
{
  nqv_init();
  if (argc < 2) return 2;
  if (!strcmp(argv[1], "sqk")) {
    unsigned long k;
    for (k = 0; k <= 65536; k++) {
      unsigned long q = k * k;
      if (q >= 1 && q - 1 <= 0xffffffffUL) sq(q - 1, 1);
      if (q <= 0xffffffffUL) sq(q, 1);
      if (q + 1 <= 0xffffffffUL) sq(q + 1, 1);
    }
  } else if (!strcmp(argv[1], "sqrand") && argc >= 4) {
    long long n = atoll(argv[2]), i;
    nqv_srand(strtoull(argv[3], 0, 10));
    for (i = 0; i < n; i++) {
      uint64_t r = nqv_rand(); unsigned sh = (unsigned) (nqv_rand() % 33);
      /* all magnitudes: uniform over a random bit width */
      unsigned long x = sh ? (unsigned long) ((r & 0xffffffffULL) >> (32 - sh)) : 0;
      sq(x, 1);
    }
  } else if (!strcmp(argv[1], "sqrange") && argc >= 4) {
    unsigned long lo = strtoul(argv[2], 0, 10), hi = strtoul(argv[3], 0, 10), x;
    long long before;
    if (hi > 0x100000000UL) hi = 0x100000000UL;
    before = nontriv;
    for (x = lo; x < hi; x++) sq(x, 0);
    nqv_dcount += nontriv - before;      /* arguments of a range are distinct by construction */
  } else if (!strcmp(argv[1], "retry") && argc >= 6) {
    long blo = atol(argv[2]), bhi = atol(argv[3]), na = atol(argv[4]), i, j; int c;
    static const long births0[] = { 0, 1, 99, 86400, 1000000000L, 1700000000L, 2147483647L, 2147483648L, 4294967295L, 4294967296L, 253402300800L };
    for (i = blo; i < bhi; i++) {
      long birth;
      nqv_srand(strtoull(argv[5], 0, 10) * 1000003ULL + (uint64_t) i);
      if (i < (long) (sizeof births0 / sizeof births0[0])) birth = births0[i];
      else if (i & 1) birth = 1700000000L + (long) (nqv_rand() % 400000000ULL);
      else birth = (long) (nqv_rand() % 8000000000ULL);
      for (j = 0; j < na; j++) {
        long age;
        unsigned cls = j < 1200 ? 0 : (unsigned) (nqv_rand() % 5);
        if (j < 1200) age = j - 100;                                     /* -100 .. 1099 dense, negative ages included */
        else if (cls == 0) age = (long) (nqv_rand() % 700000ULL);           /* up to ~8 days (default queue lifetime 7 days) */
        else if (cls == 1) { unsigned long k = nqv_rand() % 65536ULL; age = (long) (k * k) + (long) (nqv_rand() % 3ULL) - 1; }
        else if (cls == 2) age = (long) (nqv_rand() % 4294967296ULL);
        else if (cls == 3) age = -(long) (nqv_rand() % 100000ULL);
        else age = 4294967295L - (long) (nqv_rand() % 70000ULL);
        if (age > 4294967295L) age = 4294967295L;
        for (c = 0; c < 2; c++) retry(birth, age, c);
      }
    }
  } else if (!strcmp(argv[1], "sq1") && argc >= 3) {
    sq(strtoul(argv[2], 0, 10), 1);
  } else if (!strcmp(argv[1], "retry1") && argc >= 5) {
    retry(atol(argv[2]), atol(argv[3]), atoi(argv[4]));
  } else return 2;
  nqv_counter("cases", cases);
  nqv_counter("nontrivial", nontriv);
  nqv_counter("distinct_nontrivial_inputs", nqv_dcount);
  nqv_finish();
  return 0;
}
