/* C06 monitor: the real qmail-remote.c blast() run in-process on enumerated and random
   messages; the transmitted payload is judged by the reference decoder (smtpcodec.h).
   usage: h_remote_blast enum <L> <lo> <hi> [emitfile]   strings of length L over {CR,LF,'.','a'}, index range
          h_remote_blast rand <n> <seed> <maxlen> [emitfile]
   With emitfile, (input,payload) records are appended for the cross-check through the
   package's own server decoder (h_smtpd_blast xcheck). */
#include <unistd.h>
#include <setjmp.h>
#include "nqvh.h"
#include "smtpcodec.h"

static jmp_buf jb; static int exited, exitcode;
static void nqv_exit(int c) __attribute__((noreturn));
static void nqv_exit(int c) { exited = 1; exitcode = c; longjmp(jb, 1); }
#define _exit(x) nqv_exit(x)
#define main nqv_remote_main
#include "qmail-remote.c"
#undef main
#undef _exit

#define MAXIN (1 << 17)
static const unsigned char *in; static size_t inlen, inoff;
static unsigned splitmask; static int chunkmode; /* 0 whole, 1 one byte, 2 mask (split after byte i if bit i), 3 random */
static unsigned char outb[MAXIN * 3 + 64]; static size_t outlen;
static unsigned char dec[MAXIN * 3 + 64], t1[MAXIN * 3 + 64], t2[MAXIN * 3 + 64];
static unsigned char repb[4096]; static size_t replen;
static FILE *emit;

static ssize_t rd(int fd, char *b, size_t n)
{
  size_t k = inlen - inoff;
  if (n < k) k = n;
  if (k) {
    if (chunkmode == 1) k = 1;
    else if (chunkmode == 2) { size_t j = 1; while (j < k && !(splitmask >> (inoff + j - 1) & 1)) j++; k = j; }
    else if (chunkmode == 3) { size_t r = 1 + nqv_rand() % 1500; if (r < k) k = r; }
  }
  memcpy(b, in + inoff, k); inoff += k; return k;
}
static ssize_t wr(int fd, const char *b, size_t n)
{
  if (outlen + n > sizeof outb) abort();
  memcpy(outb + outlen, b, n); outlen += n; return n;
}
/* report text of perm_partialline goes to subfdoutsmall (fd 1): capture through a pipe is
   too slow for millions of cases; we only need to know that it exited via zerodie */

static long long cases, partial, crfree, crlfonly, barecr, nontrivial;

static const char *inclass(void)
{
  size_t k;
  for (k = 0; k + 1 < inlen; k++) if (in[k] == '\r' && in[k + 1] == '.') return "cr-dot";
  return "other";
}
static void viol(const char *rule)
{
  char key[96];
  snprintf(key, sizeof key, "C06/%s/%s", rule, inclass());
  nqv_violation(key, rule, in, inlen, outb, outlen);
}

static void one(const unsigned char *s, size_t n, int mode, unsigned mask)
{
  size_t dl = 0, endpos = 0, i; int r, amb; const char *g;
  in = s; inlen = n; inoff = 0; chunkmode = mode; splitmask = mask; outlen = 0; exited = 0;
  {
    substdio a = SUBSTDIO_FDBUF(rd, -1, inbuf, sizeof inbuf);
    substdio b = SUBSTDIO_FDBUF(wr, -1, smtptobuf, sizeof smtptobuf);
    ssin = a; smtpto = b;
  }
  flagcritical = 0;
  if (!setjmp(jb)) blast();
  cases++;
  for (i = 0; i < n; i++) if (s[i] == '\r' || s[i] == '\n' || s[i] == '.') { nontrivial++; nqv_distinct(s, n); break; }
  if (exited) {
    /* only a partial final line may be refused; whatever was already sent must not contain
       the end-of-data sequence */
    partial++;
    if (smtpto.p) { wr(-1, smtpto.x, smtpto.p); }     /* bytes still buffered */
    if (n == 0 || s[n - 1] == '\n') { viol("refused-complete-message"); return; }
    if ((outlen >= 3 && !memcmp(outb, ".\r\n", 3))) { viol("partial-line-sent-terminator"); return; }
    for (i = 0; i + 4 < outlen; i++) if (!memcmp(outb + i, "\r\n.\r\n", 5)) { viol("partial-line-sent-terminator"); return; }
    return;
  }
  if (!flagcritical) { viol("flagcritical-not-set-after-final-dot"); return; }
  r = ref_decode(outb, outlen, dec, &dl, &endpos, 0, &amb);
  if (r == 0) { viol("bare-lf-in-payload"); return; }
  if (r < 0) { viol("no-terminator"); return; }
  if (endpos != outlen) { viol("early-terminator"); return; }
  g = c06_grade(s, n, dec, dl, t1, t2);
  if (g) { viol(g); return; }
  {
    int hascr = 0, bare = 0;
    for (i = 0; i < n; i++) if (s[i] == '\r') { hascr = 1; if (i + 1 >= n || s[i + 1] != '\n') bare = 1; }
    if (!hascr) crfree++; else if (!bare) crlfonly++; else barecr++;
  }
  if (emit) {
    unsigned int a = n, b = outlen;
    fwrite(&a, 4, 1, emit); fwrite(s, 1, n, emit); fwrite(&b, 4, 1, emit); fwrite(outb, 1, outlen, emit);
  }
}

int main(int argc, char **argv)
{
  static unsigned char s[MAXIN];
  static const unsigned char al[4] = { '\r', '\n', '.', 'a' };
  if (argc < 5) return 2;
  nqv_init();
  if (argc > 5) { emit = fopen(argv[5], "ab"); if (!emit) return 2; }
  if (!strcmp(argv[1], "enum")) {
    int L = atoi(argv[2]); long long lo = atoll(argv[3]), hi = atoll(argv[4]), k;
    for (k = lo; k < hi; k++) {
      long long x = k; int i; unsigned m;
      for (i = 0; i < L; i++) { s[i] = al[x & 3]; x >>= 2; }
      one(s, L, 0, 0);
      nqv_sample(s, L, (hi - lo) / 6 + 1);
      if (L >= 2) one(s, L, 1, 0);
      if (L >= 3 && L <= 7) for (m = 1; m + 1 < (1u << (L - 1)); m++) one(s, L, 2, m);
    }
  } else if (!strcmp(argv[1], "rand")) {
    long long n = atoll(argv[2]), k; size_t maxlen = atol(argv[4]);
    nqv_srand(strtoull(argv[3], 0, 10));
    if (maxlen > MAXIN) maxlen = MAXIN;
    for (k = 0; k < n; k++) {
      /* length classes: short, around the 1024-byte buffers, long */
      size_t len, i; unsigned cls = nqv_rand() % 4, w = nqv_rand() % 3;
      if (cls == 0) len = nqv_rand() % 40;
      else if (cls == 1) len = 1000 + nqv_rand() % 60;
      else if (cls == 2) len = 2030 + nqv_rand() % 40;
      else len = nqv_rand() % (maxlen + 1);
      if (len > maxlen) len = maxlen;
      for (i = 0; i < len; i++) {
        unsigned r = nqv_rand() % 100;
        if (w == 0) s[i] = al[r & 3];
        else if (w == 1) s[i] = r < 8 ? '\r' : r < 20 ? '\n' : r < 30 ? '.' : (unsigned char) (nqv_rand() & 0xff);
        else s[i] = r < 3 ? '\r' : r < 8 ? '\n' : r < 12 ? '.' : 'a' + r % 26;
      }
      if (len && (nqv_rand() & 3)) s[len - 1] = '\n';
      one(s, len, (nqv_rand() & 1) ? 3 : 0, 0);
      if (len < 48) nqv_sample(s, len, n / 6 + 1);
    }
  } else return 2;
  if (emit) fclose(emit);
  nqv_counter("cases", cases); nqv_counter("nontrivial", nontrivial); nqv_counter("distinct_nontrivial_inputs", nqv_dcount);
  nqv_counter("partial_line_refusals", partial);
  nqv_counter("crfree_identical", crfree); nqv_counter("crlf_only_ok", crlfonly); nqv_counter("barecr_conserved", barecr);
  nqv_finish();
  return 0;
}
