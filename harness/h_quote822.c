/* C17 monitor, harness side: the package's quoting functions against its own parsers.
   Real code: quote.c (quote2/quote), token822.c (parse/addrlist/unquote/unparse), qmail-remote.c
   addrmangle() (this translation unit) and qmail-smtpd.c addrparse() (h_quote822_smtpd.c, linked
   with localised symbols).  For a local part a (any bytes but NUL and LF) and a host h:

     header-roundtrip        "To: " quote2(a@h) -> token822_parse -> token822_addrlist -> token822_unquote
                             must give exactly one address, a@h
     header-unparse-reparse  the token list of that field, token822_unparse(…,80) as qmail-inject does,
                             parsed again: exactly a@h again
     smtp-roundtrip          "TO:<" addrmangle(a@h) ">" -> addrparse() returns 1 with a@h

   usage: h_quote822 enum <L> <lo> <hi>        all local parts of length L over the 20-symbol alphabet, index range
          h_quote822 rand <n> <seed> <maxlen>  random local parts, length 1..maxlen, random host form
          h_quote822 lists <file>              generated RFC 822 fields with the expected (unrewritten)
                                               mailboxes: u32 len,field, u32 n, n x (u32 len, address)
          h_quote822 mangle <file>             NUL-separated addresses -> "M <hex addrmangle(address)>" lines */
#include <unistd.h>
#include <setjmp.h>
#include "nqvh.h"

static void nqv_exit(int c) __attribute__((noreturn));
static void nqv_exit(int c) { fprintf(stderr, "h_quote822: included program called _exit(%d)\n", c); exit(3); }
#define _exit(x) nqv_exit(x)
#define main nqv_remote_main
#include "qmail-remote.c"
#undef main
#undef _exit
#include "token822.h"

extern int nqv_smtpd_addrparse(char *arg, char **out, unsigned int *outlen);

static const unsigned char AL[20] = { '(', ')', '<', '>', '@', ',', ';', ':', '\\', '"', '.', '[', ']',
                                      ' ', '\r', '\t', 0x80, 0xff, 'a', 'B' };

#define MAXA 64
static stralloc got[MAXA]; static int ngot, overflow;
static int h_cb(token822_alloc *a)
{
  if (ngot >= MAXA) { overflow = 1; return 1; }
  token822_reverse(a);
  if (token822_unquote(&got[ngot], a) != 1) { fprintf(stderr, "h_quote822: out of memory\n"); exit(3); }
  token822_reverse(a);
  ngot++;
  return 1;
}

static const char *cls(const unsigned char *a, size_t n)
{
  size_t i; int f = 0;
  if (!n) return "empty";
  for (i = 0; i < n; i++) {
    unsigned char c = a[i];
    if (c == '\\') f |= 1; else if (c == '"') f |= 2; else if (c == '\r') f |= 4; else if (c >= 128) f |= 8;
    else if (c == ' ' || c == '\t') f |= 16; else if (c == '(' || c == ')') f |= 32; else if (c == '[' || c == ']') f |= 64;
    else if (c == '@') f |= 128; else if (c == '<' || c == '>' || c == ',' || c == ';' || c == ':') f |= 256;
    else if (c < 32 || c == 127) f |= 512;
    else if (c == '.' && (i == 0 || i + 1 == n || a[i + 1] == '.')) f |= 1024;
  }
  if (f & 1) return "backslash"; if (f & 2) return "dquote"; if (f & 4) return "cr"; if (f & 8) return "8bit";
  if (f & 16) return "blank"; if (f & 32) return "paren"; if (f & 64) return "bracket"; if (f & 128) return "at";
  if (f & 256) return "special"; if (f & 512) return "control"; if (f & 1024) return "dot";
  return "plain";
}

static void viol(const char *test, const char *c, const unsigned char *in, size_t inlen, const char *o, size_t olen)
{
  char key[96];
  snprintf(key, sizeof key, "C17/%s/%s", test, c);
  nqv_violation(key, test, in, inlen, (const unsigned char *) o, olen);
}

static stralloc full, field, line, mangled, cmd, buf1, buf2;
static token822_alloc tin, tout, taddr, tin2, tout2, taddr2;
static long long cases, needquote, parsed_lists, list_addresses;

#define OOM() do { fprintf(stderr, "h_quote822: out of memory\n"); exit(3); } while (0)

/* parse a complete field and collect its addresses; 1 ok, 0 unparsable */
static int addresses_of(stralloc *f, token822_alloc *ti, token822_alloc *to, token822_alloc *ta, stralloc *b)
{
  int r;
  ngot = 0; overflow = 0;
  r = token822_parse(ti, f, b);
  if (r == -1) OOM();
  if (r != 1) return 0;
  r = token822_addrlist(to, ta, ti, h_cb);
  if (r == -1) OOM();
  return r == 1;
}

static void one(const unsigned char *a, size_t n, const char *host)
{
  size_t hl = strlen(host); const char *c = cls(a, n);
  char *o; unsigned int ol; int r;
  cases++;
  if (strcmp(c, "plain")) { needquote++; nqv_distinct(a, n); }
  if (!stralloc_copyb(&full, (const char *) a, n) || !stralloc_cats(&full, "@") || !stralloc_cats(&full, host) || !stralloc_0(&full)) OOM();
  /* full.s = a@h\0, full.len counts the NUL */

  /* ---- RFC 822 header: quote2 as qmail-inject uses it, then the parser */
  if (!stralloc_copys(&field, "To: ")) OOM();
  { static stralloc q; if (!quote2(&q, full.s) || !stralloc_cat(&field, &q) || !stralloc_cats(&field, "\n")) OOM(); }
  if (!addresses_of(&field, &tin, &tout, &taddr, &buf1)) viol("header-roundtrip/unparsable", c, a, n, field.s, field.len);
  else if (ngot != 1 || got[0].len != full.len - 1 || memcmp(got[0].s, full.s, full.len - 1))
    viol("header-roundtrip", c, a, n, ngot ? got[0].s : "", ngot ? got[0].len : 0);
  else {
    /* ---- what qmail-inject writes out for this field must parse to the same address */
    if (token822_unparse(&line, &tout, 80) != 1) OOM();
    if (!addresses_of(&line, &tin2, &tout2, &taddr2, &buf2)) viol("header-unparse-reparse/unparsable", c, a, n, line.s, line.len);
    else if (ngot != 1 || got[0].len != full.len - 1 || memcmp(got[0].s, full.s, full.len - 1))
      viol("header-unparse-reparse", c, a, n, line.s, line.len);
  }

  /* ---- SMTP: client encoder, server decoder */
  addrmangle(&mangled, full.s);
  if (!stralloc_copys(&cmd, "TO:<") || !stralloc_cat(&cmd, &mangled) || !stralloc_cats(&cmd, ">") || !stralloc_0(&cmd)) OOM();
  if (memchr(cmd.s, '\n', cmd.len) || memchr(cmd.s, 0, cmd.len - 1)) viol("smtp-roundtrip/line-break-in-command", c, a, n, cmd.s, cmd.len - 1);
  else {
    r = nqv_smtpd_addrparse(cmd.s, &o, &ol);
    if (r != 1) viol("smtp-roundtrip/refused", c, a, n, cmd.s, cmd.len - 1);
    else if (ol != full.len || memcmp(o, full.s, full.len)) viol("smtp-roundtrip", c, a, n, o, ol ? ol - 1 : 0);
  }
  (void) hl;
}

static unsigned int rd32(FILE *f, int *eof)
{
  unsigned char b[4];
  if (fread(b, 1, 4, f) != 4) { *eof = 1; return 0; }
  return b[0] | b[1] << 8 | b[2] << 16 | (unsigned int) b[3] << 24;
}

static void lists(const char *path)
{
  FILE *f = fopen(path, "rb"); int eof = 0;
  static stralloc fld, exp[MAXA], joined; static stralloc first[MAXA];
  if (!f) { fprintf(stderr, "h_quote822: cannot open %s\n", path); exit(2); }
  for (;;) {
    unsigned int fl = rd32(f, &eof), n, i; int bad = 0, nfirst;
    if (eof) break;
    if (!stralloc_ready(&fld, fl + 1)) OOM();
    if (fread(fld.s, 1, fl, f) != fl) break;
    fld.len = fl;
    n = rd32(f, &eof);
    if (eof || n > MAXA) { fprintf(stderr, "h_quote822: bad list file\n"); exit(2); }
    for (i = 0; i < n; i++) {
      unsigned int l = rd32(f, &eof);
      if (!stralloc_ready(&exp[i], l + 1)) OOM();
      if (fread(exp[i].s, 1, l, f) != l) { fprintf(stderr, "h_quote822: bad list file\n"); exit(2); }
      exp[i].len = l;
    }
    cases++; parsed_lists++; list_addresses += n;
    nqv_distinct((unsigned char *) fld.s, fld.len);
    nqv_sample((unsigned char *) fld.s, fld.len, 2000);
    if (!addresses_of(&fld, &tin, &tout, &taddr, &buf1)) { viol("list-addresses/unparsable", "generated", (unsigned char *) fld.s, fld.len, "", 0); continue; }
    /* the callback runs right to left: got[ngot-1] is the first address of the field */
    if ((unsigned int) ngot != n) bad = 1;
    for (i = 0; !bad && i < n; i++)
      if (got[ngot - 1 - i].len != exp[i].len || memcmp(got[ngot - 1 - i].s, exp[i].s, exp[i].len)) bad = 1;
    if (bad) {
      if (!stralloc_copys(&joined, "")) OOM();
      for (i = 0; i < (unsigned int) ngot; i++) if (!stralloc_cat(&joined, &got[ngot - 1 - i]) || !stralloc_cats(&joined, "\n")) OOM();
      viol("list-addresses", "generated", (unsigned char *) fld.s, fld.len, joined.s, joined.len);
      continue;
    }
    nfirst = ngot;
    for (i = 0; i < (unsigned int) nfirst; i++) if (!stralloc_copy(&first[i], &got[i])) OOM();
    if (token822_unparse(&line, &tout, 80) != 1) OOM();
    if (!addresses_of(&line, &tin2, &tout2, &taddr2, &buf2)) { viol("list-unparse-reparse/unparsable", "generated", (unsigned char *) fld.s, fld.len, line.s, line.len); continue; }
    if (ngot != nfirst) bad = 1;
    for (i = 0; !bad && i < (unsigned int) nfirst; i++)
      if (got[i].len != first[i].len || memcmp(got[i].s, first[i].s, first[i].len)) bad = 1;
    if (bad) viol("list-unparse-reparse", "generated", (unsigned char *) fld.s, fld.len, line.s, line.len);
  }
  fclose(f);
}

int main(int argc, char **argv)
{
  static unsigned char s[4096];
  static const char *hosts[] = { "h.test", "[1.2.3.4]", "x", "Sub.Dom.Example" };
  if (argc < 3) return 2;
  nqv_init();
  if (!strcmp(argv[1], "enum") && argc == 5) {
    int L = atoi(argv[2]), i; long long lo = atoll(argv[3]), hi = atoll(argv[4]), k;
    if (L < 0 || L > 12) return 2;
    for (k = lo; k < hi; k++) {
      long long x = k;
      for (i = 0; i < L; i++) { s[i] = AL[x % 20]; x /= 20; }
      one(s, L, hosts[0]);
      nqv_sample(s, L, (hi - lo) / 5 + 1);
    }
  } else if (!strcmp(argv[1], "rand") && argc == 5) {
    long long n = atoll(argv[2]), k; size_t maxlen = atol(argv[4]);
    nqv_srand(strtoull(argv[3], 0, 10));
    if (maxlen > 1000) maxlen = 1000;
    for (k = 0; k < n; k++) {
      size_t len = 1 + nqv_rand() % maxlen, i; unsigned w = nqv_rand() % 3;
      for (i = 0; i < len; i++) {
        unsigned char ch;
        if (w == 0 || (w == 1 && nqv_rand() % 3)) ch = AL[nqv_rand() % 20];
        else if (w == 1) ch = 'a' + nqv_rand() % 26;
        else do ch = nqv_rand() & 0xff; while (ch == 0 || ch == '\n');
        s[i] = ch;
      }
      one(s, len, hosts[nqv_rand() % 4]);
      if (len < 40) nqv_sample(s, len, n / 5 + 1);
    }
  } else if (!strcmp(argv[1], "lists") && argc == 3) {
    lists(argv[2]);
  } else if (!strcmp(argv[1], "mangle") && argc == 3) {
    /* NUL-separated addresses in, "M <hex of addrmangle(address)>" out: the text the real
       qmail-remote would put between "<" and ">" (fed to the real qmail-smtpd by the check) */
    FILE *f = fopen(argv[2], "rb"); static char b[1 << 20]; size_t n, i = 0;
    if (!f) return 2;
    n = fread(b, 1, sizeof b - 1, f); b[n] = 0; fclose(f);
    while (i < n) {
      size_t l = strlen(b + i);
      addrmangle(&mangled, b + i);
      fputs("M ", nqv_o); nqv_hex((unsigned char *) mangled.s, mangled.len); putc('\n', nqv_o);
      cases++;
      i += l + 1;
    }
  } else return 2;
  nqv_counter("cases", cases);
  nqv_counter("local_parts_needing_quotes", needquote);
  nqv_counter("generated_lists_parsed", parsed_lists);
  nqv_counter("generated_list_addresses", list_addresses);
  nqv_counter("distinct_nontrivial_inputs", nqv_dcount);
  nqv_finish();
  return 0;
}
