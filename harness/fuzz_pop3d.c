/* C20 target 4a: qmail-pop3d command stream.  Real qmail-pop3d.c run from main() in a
   generated Maildir ($NQV_FZ_MAILDIR); timeoutread is the fuzz input, timeoutwrite a sink.
   getuid() answers 1000 (the program refuses to run as root); unlink()/rename() are
   answered 0 without touching the Maildir so that every run sees the same messages.
   Input: <stream> <selector byte>: bits 0-1 chunking. */
#include "fuzz_common.h"
#include "sig.h"
#define _exit(x) fz_exit(x)
#define getuid() 1000
#define unlink(f) fz_unlink(f)
#define rename fz_rename
#define sig_alarmcatch(f) ((void) 0)      /* SIGALRM belongs to libFuzzer's -timeout */
static int fz_unlink(const char *f) { fz_write(-1, f, strlen(f) + 1); return 0; }
static int fz_rename(const char *a, const char *b) { fz_write(-1, a, strlen(a) + 1); fz_write(-1, b, strlen(b) + 1); return 0; }
#define puts nqv_prog_puts           /* the program has its own puts(); stdio.h is already in */
#define main nqv_pop3d_main
#include "qmail-pop3d.c"
#include "commands.c"                   /* the tree's command reader, included to reach its static line buffer */
#undef main
#undef puts
#undef _exit

ssize_t timeoutread(int t, int fd, char *b, size_t n) { (void) t; return fz_read(fd, b, n); }
ssize_t timeoutwrite(int t, int fd, const void *b, size_t n) { (void) t; return fz_write(fd, b, n); }

static const int allowed[] = { 0, 1, -1 };
static char *args[3];

int LLVMFuzzerInitialize(int *argc, char ***argv)
{
  (void) argc; (void) argv;
  fz_setup("pop3d");
  fz_extra_name[0] = "messages_listed";
  args[0] = (char *) "qmail-pop3d"; args[1] = getenv("NQV_FZ_MAILDIR"); args[2] = 0;
  if (!args[1]) { fprintf(stderr, "fuzz_pop3d: NQV_FZ_MAILDIR not set\n"); exit(3); }
  return 0;
}

int LLVMFuzzerTestOneInput(const uint8_t *data, size_t size)
{
  unsigned sel = size ? data[size - 1] : 0;
  static const unsigned chunks[4] = { 0, 1, 7, 200 };
  volatile int exited = 0;
  if (size) size--;
  fz_in = data; fz_inlen = size; fz_inoff = 0; fz_chunk = chunks[sel & 3]; fz_endless = 0;
  ssin.p = 0; ssin.n = sizeof ssinbuf; ssout.p = 0; sserr.p = 0; last = 0;
  if (m) { free(m); m = 0; } numm = 0;
  FZ_FRESH(line); FZ_FRESH(filenames); FZ_FRESH(cmd);
  if (pq.p) free(pq.p); pq.p = 0; pq.len = 0; pq.a = 0;
  if (!setjmp(fz_jb)) nqv_pop3d_main(2, args); else exited = 1;
  fz_extra[0] += numm;
  fz_outcome(exited, allowed, 0);
  fz_fd_sweep();
  return 0;
}
