/* C09 monitor (c): the real qmail-rspawn.c report() fed with every wait status x a family of
   qmail-remote outputs (well-formed, truncated, garbage, NUL-laden, huge) + random ones.
   The output buffer is built exactly like spawn.c builds it (a stralloc grown by 128-byte
   reads, never NUL-terminated, fresh for every case) so that ASan sees an over-read.
   Oracle (qmail-remote(8) RESULTS, statement of C09; mirrored by
   nqv/refmodel/remote_model.py:rspawn_allowed which re-judges the emitted records):
     crash                      -> Z only
     exit code != 0             -> never K
     fold of the output = Z     -> Z only        (first report s, or first K/Z/D report is Z)
     fold = D or unparseable    -> never K
     fold = K                   -> anything
   and the report is one letter K/Z/D followed by text without NUL bytes.
   usage: h_rspawn_report all <family_lo> <family_hi> <emit_every> [emitfile]   (families 0..55; one process
                                   per family, so that a sanitizer abort costs only that family)
          h_rspawn_report rand <count> <seed> <emit_every> [emitfile]
          h_rspawn_report one <wstat> <hex-output> */
#include "nqvh.h"
#include "stralloc.h"
#include "byte.h"
#include "alloc.h"
#include "qmail-rspawn.c"

uid_t auto_uidq;                 /* lives in spawn.c, which is not linked */

static unsigned char cap[1 << 20]; static size_t caplen; static int capover;
static ssize_t h_cap(int fd, const char *b, size_t n)
{
  if (caplen + n > sizeof cap) { capover = 1; return n; }
  memcpy(cap + caplen, b, n); caplen += n; return n;
}

static long long cases, nontrivial, vK, vZ, vD, crashes, nonzero, foldk, foldz, foldd, unparse, emitted, k_unknown_lead;
static FILE *emit; static long emit_every;

/* liberal fold, written from qmail-remote(8): 0 = unparseable */
static int prefix_fold(const unsigned char *s, size_t n, int *unknown_lead)
{
  size_t j = 0, k; int first = 1;
  *unknown_lead = 0;
  for (k = 0; k < n; k++) if (!s[k]) {
    unsigned char c = s[j];
    if (first) {
      if (c == 'h') return 'D';
      if (c == 's') return 'Z';
      if (c != 'r' && c != 'K' && c != 'Z' && c != 'D') *unknown_lead = 1;
      first = 0;
    }
    if (j < k && (c == 'K' || c == 'Z' || c == 'D')) return c;
    j = k + 1;
  }
  return 0;
}

static void one(int wstat, const unsigned char *o, size_t n, int verbose)
{
  static char outbuf[1024];
  stralloc output = {0}; substdio ss; size_t off; int f, ul, v; const char *site; char key[96]; const char *rule = 0;
  unsigned char wb[8];
  /* spawn.c: stralloc_copys(&d[delnum].output,""), then read(fdin,inbuf,128) + readyplus + byte_copy */
  if (!stralloc_copys(&output, "")) abort();
  for (off = 0; off < n; off += 128) {
    size_t r = n - off < 128 ? n - off : 128;
    if (!stralloc_readyplus(&output, r)) abort();
    byte_copy(output.s + output.len, r, (char *) o + off);
    output.len += r;
  }
  substdio_fdbuf(&ss, h_cap, -1, outbuf, sizeof outbuf);
  caplen = 0; capover = 0;
  report(&ss, wstat, output.s, output.len);
  substdio_flush(&ss);
  alloc_free(output.s);
  cases++;
  f = prefix_fold(o, n, &ul);
  if (wstat & 127) { site = "crash"; crashes++; }
  else if (wstat >> 8) { site = "exit-nonzero"; nonzero++; }
  else if (f == 'K') { site = "fold-K"; foldk++; }
  else if (f == 'Z') { site = "fold-Z"; foldz++; }
  else if (f == 'D') { site = "fold-D"; foldd++; }
  else { site = "fold-unparseable"; unparse++; }
  v = caplen ? cap[0] : 0;
  if (verbose) {
    fprintf(stderr, "wstat=%d site=%s report=", wstat, site);
    fwrite(cap, 1, caplen, stderr); fprintf(stderr, "\n");
  }
  if (v == 'K') vK++; else if (v == 'Z') vZ++; else if (v == 'D') vD++;
  if (v != 'K' && v != 'Z' && v != 'D') rule = "no-verdict-letter";
  else if (memchr(cap, 0, caplen)) rule = "nul-in-report";
  else if (wstat & 127) { if (v != 'Z') rule = v == 'K' ? "success-unjustified" : "crash-not-temporary"; }
  else if (v == 'K' && ((wstat >> 8) || f != 'K')) rule = "success-unjustified";
  else if (v == 'D' && !(wstat >> 8) && f == 'Z') rule = "stronger-than-fold";
  if (v == 'K' && ul) k_unknown_lead++;
  if ((wstat & 127) || (wstat >> 8) || f != 'K' || n > 200) {
    nontrivial++;
    wb[0] = wstat & 255; wb[1] = wstat >> 8 & 255;
    nqv_distinct_h(nqv_fnv(o, n) * 31 + nqv_fnv(wb, 2));
  }
  wb[0] = wstat >> 8 & 255; wb[1] = wstat & 255;
  if (rule) {
    /* witness input = 2 bytes wait status (hi, lo) + output */
    static unsigned char in[3002]; size_t m = n > 3000 ? 3000 : n;
    in[0] = wb[0]; in[1] = wb[1]; memcpy(in + 2, o, m);
    snprintf(key, sizeof key, "C09/rspawn/%s/%s", rule, site);
    nqv_violation(key, rule, in, m + 2, cap, caplen);
  }
  if (emit && emit_every && cases % emit_every == 0 && n <= 4000) {
    static const char hx[] = "0123456789abcdef"; size_t k;
    fprintf(emit, "W %d ", wstat);
    if (!n) putc('-', emit);
    for (k = 0; k < n; k++) { putc(hx[o[k] >> 4], emit); putc(hx[o[k] & 15], emit); }
    putc(' ', emit);
    if (!caplen) putc('-', emit);
    for (k = 0; k < caplen; k++) { putc(hx[cap[k] >> 4], emit); putc(hx[cap[k] & 15], emit); }
    putc('\n', emit);
    emitted++;
  }
}

/* ------------------------------------------------------------------ output families */
#define MAXOUT 70000
static unsigned char ob[MAXOUT]; static size_t ol;
static void oz(const char *s) { size_t n = strlen(s) + 1; memcpy(ob + ol, s, n); ol += n; }     /* report + NUL */
static void on(const char *s) { size_t n = strlen(s); memcpy(ob + ol, s, n); ol += n; }         /* no NUL */
#define NFAM 56
static int family(int k)
{
  static const char *T[3] = { "K127.0.0.1 accepted message.\nRemote host said: 250 ok\n",
                              "ZConnected to 127.0.0.1 but connection died. (#4.4.2)\n",
                              "D127.0.0.1 failed after I sent the message.\nRemote host said: 554 no\n" };
  static const char *R[3] = { "r", "h127.0.0.1 does not like recipient.\nRemote host said: 550 no\n",
                              "s127.0.0.1 does not like recipient.\nRemote host said: 451 later\n" };
  size_t i;
  ol = 0;
  if (k < 9) { oz(R[k / 3]); oz(T[k % 3]); return 1; }                 /* r/h/s x K/Z/D */
  if (k < 12) { oz(T[k - 9]); return 1; }                              /* message report only */
  if (k < 15) { oz(R[k - 12]); return 1; }                             /* recipient report only */
  if (k < 18) { oz(R[0]); on(T[k - 15]); return 1; }                   /* r + unterminated message report */
  if (k < 21) { on(T[k - 18]); return 1; }                             /* unterminated message report only */
  if (k < 24) { on(R[k - 21]); return 1; }                             /* unterminated recipient report */
  if (k < 27) { oz(R[0]); oz(R[k - 24]); oz(T[0]); return 1; }         /* two recipient reports + K */
  if (k < 30) { oz(R[k - 27]); oz(R[0]); oz(T[0]); return 1; }
  if (k < 33) { oz(R[0]); oz(T[k - 30]); oz(T[0]); return 1; }         /* two message reports */
  if (k < 36) { oz(T[k - 33]); oz(R[0]); oz(T[0]); return 1; }         /* message report first */
  switch (k) {
  case 36: return 1;                                                   /* empty */
  case 37: ob[ol++] = 0; return 1;
  case 38: ob[ol++] = 0; ob[ol++] = 0; ob[ol++] = 0; return 1;
  case 39: ob[ol++] = 0; oz(T[0]); return 1;                           /* empty first report */
  case 40: oz("xgarbage"); oz(T[0]); return 1;                         /* unknown first letter */
  case 41: oz("garbage without any report letter"); return 1;
  case 42: on("garbage without NUL"); return 1;
  case 43: on("K"); return 1;
  case 44: on("r"); return 1;
  case 45: oz("r"); on("K"); return 1;
  case 46: oz("r"); oz("k lower case"); return 1;
  case 47: oz("R"); oz(T[0]); return 1;
  case 48: for (i = 0; i < 300; i++) ob[ol++] = (unsigned char) (i * 7 + 1) | 0x80; ob[ol++] = 0; oz(T[0]); return 1;
  case 49: oz("r"); on("K"); for (i = 0; i < 60000; i++) ob[ol++] = 'a' + i % 26; ob[ol++] = 0; return 1;   /* huge K */
  case 50: oz("s"); on("K"); for (i = 0; i < 60000; i++) ob[ol++] = 'a' + i % 26; ob[ol++] = 0; return 1;
  case 51: on("h"); for (i = 0; i < 60000; i++) ob[ol++] = 'a' + i % 26; ob[ol++] = 0; oz(T[0]); return 1;
  case 52: for (i = 0; i < 60000; i++) ob[ol++] = 'a' + i % 26; return 1;                                    /* huge, no NUL */
  case 53: oz("r"); for (i = 0; i < 127 - 2; i++) ob[ol++] = i ? 'x' : 'K'; return 1;   /* K report ends exactly at a 128-byte read, unterminated */
  case 54: oz("r"); for (i = 0; i < 128 - 2; i++) ob[ol++] = i ? 'x' : 'K'; return 1;
  case 55: oz("r"); ob[ol++] = 'Z'; return 1;
  }
  return 0;
}

int main(int argc, char **argv)
{
  if (argc < 3) return 2;
  nqv_init();
  if (!strcmp(argv[1], "all") && argc >= 5) {
    int k, w;
    emit_every = atol(argv[4]);
    if (argc > 5) { emit = fopen(argv[5], "w"); if (!emit) return 2; }
    for (k = atoi(argv[2]); k < atoi(argv[3]) && k < NFAM; k++) {
      if (!family(k)) continue;
      for (w = 0; w < 256; w++) one(w << 8, ob, ol, 0);                /* every exit code */
      for (w = 1; w < 128; w++) { one(w, ob, ol, 0); one(w | 128, ob, ol, 0); }   /* every signal, with and without core */
      for (w = 1; w < 128; w += 13) one(w | (w << 8), ob, ol, 0);
      if (ol <= 200) nqv_sample(ob, ol, 7);
    }
  } else if (!strcmp(argv[1], "rand") && argc >= 5) {
    long long n = atoll(argv[2]), i;
    static const char L[] = "rhsKZDxk";
    nqv_srand(strtoull(argv[3], 0, 10));
    emit_every = atol(argv[4]);
    if (argc > 5) { emit = fopen(argv[5], "w"); if (!emit) return 2; }
    for (i = 0; i < n; i++) {
      int nrep = nqv_rand() % 5, j, w; unsigned m = nqv_rand() % 100;
      ol = 0;
      for (j = 0; j < nrep; j++) {
        int len = nqv_rand() % 4 ? nqv_rand() % 12 : nqv_rand() % 300, q;
        if (nqv_rand() % 10) ob[ol++] = L[nqv_rand() % 8];
        for (q = 0; q < len; q++) ob[ol++] = nqv_rand() % 20 ? 'a' + nqv_rand() % 26 : (unsigned char) nqv_rand();
        if (j + 1 < nrep || nqv_rand() % 3) ob[ol++] = 0;
      }
      w = m < 70 ? 0 : m < 80 ? (int) (nqv_rand() % 256) << 8 : m < 90 ? (int) (1 + nqv_rand() % 127) : m < 95 ? 111 << 8 : 100 << 8;
      one(w, ob, ol, 0);
      if (ol < 60) nqv_sample(ob, ol, n / 5 + 1);
    }
  } else if (!strcmp(argv[1], "one") && argc >= 4) {
    const char *h = argv[3]; ol = 0;
    if (strcmp(h, "-")) while (h[0] && h[1] && ol < MAXOUT) { unsigned v; sscanf(h, "%2x", &v); ob[ol++] = v; h += 2; }
    one(atoi(argv[2]), ob, ol, 1);
  } else return 2;
  if (emit) fclose(emit);
  nqv_counter("cases", cases); nqv_counter("nontrivial", nontrivial); nqv_counter("distinct_nontrivial_inputs", nqv_dcount);
  nqv_counter("report_cases", cases);
  nqv_counter("report_verdict_K", vK); nqv_counter("report_verdict_Z", vZ); nqv_counter("report_verdict_D", vD);
  nqv_counter("report_in_crash", crashes); nqv_counter("report_in_exit_nonzero", nonzero);
  nqv_counter("report_in_fold_K", foldk); nqv_counter("report_in_fold_Z", foldz); nqv_counter("report_in_fold_D", foldd);
  nqv_counter("report_in_unparseable", unparse); nqv_counter("report_K_with_unknown_leading_report", k_unknown_lead);
  nqv_counter("report_records_emitted_for_model", emitted);
  nqv_finish();
  return 0;
}
