/* C20 target 2: qmail-qmtpd netstring stream.  Real qmail-qmtpd.c, read()/write() on the
   connection replaced by the fuzz input / a sink, qmail-queue client stubbed.  Every input is
   one connection (main() from the start, including the control file reads).
   Input: <stream> <selector byte>: bits 0-1 chunking, bit 2 RELAYCLIENT="", bit 3
   RELAYCLIENT="@relay.test", bits 4-5 DATABYTES (unset / unset / 64 / 100000), bits 6-7 qmail-queue verdict.
   Long-haul mode (env NQV_FZ_LONGHAUL=1, thorough tier, explicit input files only): after the
   input the reader delivers an endless stream of 'a' at no cost, so that a declared length of
   2^31+k is really consumed if the 200000000 guard is gone (signed overflow of the int counter). */
#define FZ_WANT_QMAIL_STUBS
#include "fuzz_common.h"
#include "env.h"
#define _exit(x) fz_exit(x)
#define read fz_read
#define write fz_write
#define alarm(x) 0
#include "sig.h"
#define sig_alarmcatch(f) ((void) 0)      /* SIGALRM belongs to libFuzzer's -timeout */
#define main nqv_qmtpd_main
#include "qmail-qmtpd.c"
#undef main
#undef read
#undef write
#undef _exit

static const int allowed[] = { 0, 100, 111, -1 };
static int longhaul;

int LLVMFuzzerInitialize(int *argc, char ***argv)
{
  (void) argc; (void) argv;
  fz_setup("qmtpd");
  longhaul = getenv("NQV_FZ_LONGHAUL") != 0;
  return 0;
}

int LLVMFuzzerTestOneInput(const uint8_t *data, size_t size)
{
  unsigned sel = size ? data[size - 1] : 0;
  static const unsigned chunks[4] = { 0, 1, 7, 200 };
  volatile int exited = 0;
  if (size) size--;
  fz_in = data; fz_inlen = size; fz_inoff = 0; fz_chunk = chunks[sel & 3]; fz_endless = longhaul;
  if (sel & 4) env_put2("RELAYCLIENT", ""); else if (sel & 8) env_put2("RELAYCLIENT", "@relay.test"); else env_unset("RELAYCLIENT");
  if (((sel >> 4) & 3) == 2) env_put2("DATABYTES", "64"); else if (((sel >> 4) & 3) == 3) env_put2("DATABYTES", "100000"); else env_unset("DATABYTES");
  fz_qq_result = ((sel >> 6) & 3) == 2 ? "Dperm (stub)" : ((sel >> 6) & 3) == 3 ? "Ztemp (stub)" : "";
  ssin.p = 0; ssin.n = sizeof ssinbuf; ssout.p = 0; databytes = 0; bytestooverflow = 0;
  FZ_FRESH(failure);
  if (!setjmp(fz_jb)) nqv_qmtpd_main(); else exited = 1;
  fz_outcome(exited, allowed, 0);
  fz_fd_sweep();
  return 0;
}
