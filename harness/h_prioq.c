/* C15 arithmetic core: the real prioq.c against a sorted-multiset model.
   usage: h_prioq enum <maxlen> <first_lo> <first_hi>   every sequence of length 1..maxlen over the 5 operations
                                                       {insert key0..key3, delmin} whose first TWO operations have
                                                       index (op0*5+op1) in [first_lo, first_hi)  (0..25; length-1
                                                       sequences are run by the process that owns index 0)
          h_prioq rand <nops> <seed> <maxsize> <nkeys>
          h_prioq seq <hex>                                   replay of one enumerated sequence
   Checked after every operation:
     prioq_min  returns 0 iff the model is empty, else an element (dt,id) that is in the model and whose dt is the
                minimum of the model;
     insert     heap content (read from pq.p[0..len)) == model + {new element};
     delmin     heap content == model minus exactly one element, and that element has the minimum dt
                (which of several equal-dt elements goes is not specified and not judged);
                on an empty queue the queue stays empty.
   ids are unique per insertion so multiset comparison is by id. */
#include <limits.h>
#include "nqvh.h"
#include "prioq.h"

#define MAXID (1 << 22)
static long *m_dt;           /* model: dt by id */
static unsigned char *m_in;  /* model: id present */
static unsigned char *seen;
static long m_n;             /* model size */
static unsigned long next_id;
static prioq pq;
static long long cases, ops_ins, ops_del, ops_del_empty, min_checks, ties_seen, full_scans, seqs;
static unsigned char cur[64]; static int curlen;   /* current enumerated sequence for witnesses */
static char randctx[96];
static uint64_t mhash;       /* additive hash of the multiset of dt values in the model (random part) */
static uint64_t mix(long dt) { uint64_t x = (uint64_t) dt * 0x9E3779B97F4A7C15ULL; x ^= x >> 29; x *= 0xBF58476D1CE4E5B9ULL; x ^= x >> 32; return x | 1; }

static void viol(const char *key, const char *why)
{
  if (curlen) nqv_violation(key, why, cur, curlen, 0, 0);
  else nqv_violation(key, why, (unsigned char *) randctx, strlen(randctx), 0, 0);
}

static int model_min(long *out)
{
  unsigned long i; int have = 0; long best = 0;
  /* model ids in use are < next_id; for the enumerated part that is <= 11, for the random part we keep a live list */
  for (i = 0; i < next_id; i++) if (m_in[i]) { if (!have || m_dt[i] < best) { best = m_dt[i]; have = 1; } }
  *out = best; return have;
}

/* live-id list for the random part (so that model_min is O(size) not O(ids ever used)) */
static unsigned long *live; static long nlive;
static int live_min(long *out)
{
  long i; int have = 0; long best = 0;
  for (i = 0; i < nlive; i++) { long d = m_dt[live[i]]; if (!have || d < best) { best = d; have = 1; } }
  *out = best; return have;
}
static void live_sync_remove(unsigned long id)
{
  long i;
  for (i = 0; i < nlive; i++) if (live[i] == id) { live[i] = live[--nlive]; return; }
}

/* compare heap content with the model; if allow_missing, exactly one model element may be absent from the heap:
   it is returned in *missing.  Returns 0 on a mismatch (violation already reported). */
static int scan(int allow_missing, unsigned long *missing, int uselive)
{
  unsigned int i; long found = 0; int ok = 1; unsigned long miss = (unsigned long) -1; long nmiss = 0;
  full_scans++;
  if (pq.len > 0 && !pq.p) { viol("C15/prioq/len-without-storage", "len>0,p==0"); return 0; }
  for (i = 0; i < pq.len; i++) {
    unsigned long id = pq.p[i].id;
    if (id >= next_id || !m_in[id]) { viol("C15/prioq/foreign-element", "heap-holds-element-not-in-model"); ok = 0; break; }
    if (seen[id]) { viol("C15/prioq/duplicated-element", "heap-holds-an-element-twice"); ok = 0; break; }
    if (pq.p[i].dt != m_dt[id]) { viol("C15/prioq/dt-changed", "element-dt-differs-from-inserted"); ok = 0; break; }
    seen[id] = 1; found++;
  }
  if (ok) {
    if (uselive) { long k; for (k = 0; k < nlive; k++) if (!seen[live[k]]) { nmiss++; miss = live[k]; } }
    else { unsigned long k; for (k = 0; k < next_id; k++) if (m_in[k] && !seen[k]) { nmiss++; miss = k; } }
    if (nmiss != (allow_missing ? 1 : 0)) {
      viol(allow_missing ? "C15/prioq/delmin-removed-not-exactly-one" : "C15/prioq/element-lost", "multiset-size-mismatch");
      ok = 0;
    }
  }
  for (i = 0; i < pq.len; i++) if (pq.p[i].id < next_id) seen[pq.p[i].id] = 0;
  if (ok && allow_missing) *missing = miss;
  return ok;
}

static int check_min(int uselive)
{
  struct prioq_elt pe; long mn; int have, r;
  pe.dt = -2; pe.id = (unsigned long) -1;
  r = prioq_min(&pq, &pe);
  have = uselive ? live_min(&mn) : model_min(&mn);
  min_checks++;
  if (!have) { if (r) { viol("C15/prioq/min-on-empty", "prioq_min-returned-1-on-empty-queue"); return 0; } return 1; }
  if (!r) { viol("C15/prioq/min-missing", "prioq_min-returned-0-on-nonempty-queue"); return 0; }
  if (pe.id >= next_id || !m_in[pe.id] || m_dt[pe.id] != pe.dt) { viol("C15/prioq/min-not-an-element", "prioq_min-returned-element-not-in-queue"); return 0; }
  if (pe.dt != mn) { viol("C15/prioq/min-not-minimal", "prioq_min-returned-non-minimum"); return 0; }
  return 1;
}

static int do_insert(long dt, int uselive, int fullscan)
{
  struct prioq_elt pe; unsigned long id = next_id;
  if (id >= MAXID) return 1;
  pe.dt = dt; pe.id = id;
  if (!prioq_insert(&pq, &pe)) { fprintf(stderr, "prioq_insert: out of memory\n"); exit(3); }
  next_id++; m_dt[id] = dt; m_in[id] = 1; m_n++; ops_ins++;
  if (uselive) live[nlive++] = id;
  if (pq.len != (unsigned int) m_n) { viol("C15/prioq/insert-len", "len-not-incremented-by-one"); return 0; }
  if (fullscan && !scan(0, 0, uselive)) return 0;
  return check_min(uselive);
}

static int do_delmin(int uselive, int fullscan)
{
  long mn; int have = uselive ? live_min(&mn) : model_min(&mn); unsigned long gone; long ties = 0;
  prioq_delmin(&pq);
  if (!have) {
    ops_del_empty++;
    if (pq.p && pq.len != 0) { viol("C15/prioq/delmin-on-empty", "queue-not-empty-after-delmin-on-empty"); return 0; }
    return check_min(uselive);
  }
  ops_del++;
  if (pq.len != (unsigned int) (m_n - 1)) { viol("C15/prioq/delmin-removed-not-exactly-one", "len-not-decremented-by-one"); return 0; }
  if (fullscan) {
    if (!scan(1, &gone, uselive)) return 0;
    if (m_dt[gone] != mn) { viol("C15/prioq/delmin-removed-non-minimal", "removed-element-is-not-a-minimum"); return 0; }
  } else {
    /* cheap path (large random heaps): the element prioq_min named before must be a minimum (checked by the caller's
       previous check_min); find which id vanished among the minima only */
    long k; unsigned int i; gone = (unsigned long) -1;
    for (k = 0; k < nlive; k++) if (m_dt[live[k]] == mn) seen[live[k]] = 2;
    for (i = 0; i < pq.len; i++) if (pq.p[i].id < next_id && seen[pq.p[i].id] == 2) seen[pq.p[i].id] = 3;
    for (k = 0; k < nlive; k++) { unsigned long id = live[k]; if (seen[id] == 2) { ties++; gone = id; } if (seen[id]) seen[id] = 0; }
    if (ties != 1) { viol("C15/prioq/delmin-removed-non-minimal", "number-of-minimal-elements-did-not-drop-by-one"); return 0; }
  }
  { long k, t = 0;
    if (uselive) { for (k = 0; k < nlive; k++) if (m_dt[live[k]] == mn) t++; }
    else { unsigned long q; for (q = 0; q < next_id; q++) if (m_in[q] && m_dt[q] == mn) t++; }
    if (t > 1) ties_seen++; }
  m_in[gone] = 0; m_n--;
  if (uselive) live_sync_remove(gone);
  return check_min(uselive);
}

static void reset(void)
{
  unsigned long i;
  for (i = 0; i < next_id; i++) m_in[i] = 0;
  next_id = 0; m_n = 0; nlive = 0;
  if (pq.p) free(pq.p);        /* every sequence starts from the all-zero queue, like a static prioq in the daemon */
  pq.p = 0; pq.len = 0; pq.a = 0;
}

static const long KEYS[4] = { 5, 5 + 1, 3, 7 };     /* order of first use differs from numeric order */

/* run one complete sequence from scratch */
static void run_seq(const unsigned char *ops, int n)
{
  int i; uint64_t h;
  reset();
  memcpy(cur, ops, n); curlen = n;
  seqs++;
  if (n >= 6 && (seqs % 400009) == 7) {
    char t[160]; int k = 0;
    for (i = 0; i < n; i++) k += snprintf(t + k, sizeof t - k, ops[i] < 4 ? "ins(%ld) " : "delmin ", KEYS[ops[i] & 3]);
    nqv_sample((unsigned char *) t, strlen(t), 1);
  }
  for (i = 0; i < n; i++) {
    cases++;
    if (ops[i] < 4) { if (!do_insert(KEYS[ops[i]], 0, 1)) break; }
    else if (!do_delmin(0, 1)) break;
  }
  /* non-trivial: at least one insert and one delmin on a non-empty queue */
  { int ins = 0, del = 0, sz = 0;
    for (i = 0; i < n; i++) { if (ops[i] < 4) { ins++; sz++; } else if (sz) { del++; sz--; } }
    if (ins && del) { h = nqv_fnv(ops, n); nqv_distinct_h(h); } }
}

static void enum_rec(unsigned char *ops, int depth, int maxlen)
{
  int o;
  run_seq(ops, depth);
  if (depth == maxlen) return;
  for (o = 0; o < 5; o++) { ops[depth] = (unsigned char) o; enum_rec(ops, depth + 1, maxlen); }
}

int main(int argc, char **argv)
{
  nqv_init();
  m_dt = calloc(MAXID, sizeof(long)); m_in = calloc(MAXID, 1); seen = calloc(MAXID, 1); live = calloc(MAXID, sizeof(unsigned long));
  if (!m_dt || !m_in || !seen || !live) return 3;
  if (argc >= 5 && !strcmp(argv[1], "enum")) {
    int maxlen = atoi(argv[2]), lo = atoi(argv[3]), hi = atoi(argv[4]), f; unsigned char ops[64];
    if (maxlen > 30) return 2;
    if (lo == 0) { for (f = 0; f < 5; f++) { ops[0] = (unsigned char) f; run_seq(ops, 1); } }
    if (maxlen >= 2)
      for (f = lo; f < hi && f < 25; f++) { ops[0] = (unsigned char) (f / 5); ops[1] = (unsigned char) (f % 5); enum_rec(ops, 2, maxlen); }
  } else if (argc >= 3 && !strcmp(argv[1], "seq")) {          /* replay: one sequence, hex digits pairs (00-03 insert key, 04 delmin) */
    unsigned char ops[64]; int n = 0; const char *h = argv[2];
    while (h[0] && h[1] && n < 64) { unsigned v; sscanf(h, "%2x", &v); ops[n++] = (unsigned char) (v > 4 ? 4 : v); h += 2; }
    run_seq(ops, n);
  } else if (argc >= 6 && !strcmp(argv[1], "rand")) {
    long long nops = atoll(argv[2]), k; long maxsize = atol(argv[4]); long nkeys = atol(argv[5]);
    static const long ext[] = { LONG_MIN, LONG_MIN + 1, -1, 0, 1, 2147483647L, 2147483648L, 4294967295L, 4294967296L, LONG_MAX - 1, LONG_MAX };
    long base; int phase_grow = 1; int fullscan = maxsize <= 256;
    nqv_srand(strtoull(argv[3], 0, 10));
    base = 1700000000L + (long) (nqv_rand() % 1000000ULL);
    snprintf(randctx, sizeof randctx, "rand %s %s %s %s", argv[2], argv[3], argv[4], argv[5]);
    curlen = 0;
    for (k = 0; k < nops; k++) {
      unsigned r = (unsigned) (nqv_rand() % 100);
      int ins;
      cases++;
      /* alternate growth and drain phases so that the heap really fills up and really empties */
      if (m_n >= maxsize) phase_grow = 0; else if (m_n == 0) phase_grow = 1;
      ins = phase_grow ? (r < 65) : (r < 35);
      if (next_id >= MAXID - 1) break;
      if (ins) {
        long dt; unsigned kr = (unsigned) (nqv_rand() % 100);
        if (kr < 4) dt = ext[nqv_rand() % (sizeof ext / sizeof ext[0])];
        else dt = base + (long) (nqv_rand() % (uint64_t) nkeys);
        /* distinct case = (multiset of dt values before the operation, operation); non-trivial when >= 2 elements */
        if (m_n >= 2) nqv_distinct_h(mhash * 31 + mix(dt) * 7 + (uint64_t) m_n);
        if (!do_insert(dt, 1, fullscan || (k & 1023) == 0)) break;
        mhash += mix(dt);
      } else {
        long mn; int have = live_min(&mn);
        if (m_n >= 2) nqv_distinct_h(mhash * 31 + 5 + (uint64_t) m_n);
        if (!do_delmin(1, fullscan || (k & 1023) == 0)) break;
        if (have) mhash -= mix(mn);
      }
    }
  } else return 2;
  nqv_counter("cases", cases);
  nqv_counter("sequences", seqs);
  nqv_counter("inserts", ops_ins); nqv_counter("delmins_nonempty", ops_del); nqv_counter("delmins_on_empty", ops_del_empty);
  nqv_counter("min_checks", min_checks); nqv_counter("delmins_with_tied_minimum", ties_seen); nqv_counter("full_multiset_comparisons", full_scans);
  nqv_counter("distinct_nontrivial_inputs", nqv_dcount);
  nqv_finish();
  return 0;
}
