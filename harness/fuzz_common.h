/* Shared helpers for the C20 libFuzzer targets (harness/fuzz_*.c).

   Every target #includes one real program source of the tree under test with `main`
   renamed and `_exit` turned into a longjmp back into LLVMFuzzerTestOneInput, links the
   tree's own objects, and replaces only boundary functions (descriptor reads/writes,
   the qmail-queue client, the resolver, fork/wait).  The monitor is ASan/UBSan plus the
   set of exit statuses seen: a status outside the target's documented set aborts with a
   recognisable message.

   On exit (atexit) each target prints one line to stderr:
       NQVSTAT <target> runs=<n> exits=<code>:<count>,... returned=<count> [k=v ...]
   which nqv/checks/c20.py folds into the evidence. */
#ifndef FUZZ_COMMON_H
#define FUZZ_COMMON_H
#include <stdio.h>
#include <stdlib.h>
#include <string.h>
#include <stdint.h>
#include <stddef.h>
#include <unistd.h>
#include <fcntl.h>
#include <errno.h>
#include <setjmp.h>
#include <signal.h>
#include <sys/types.h>
#include <sys/stat.h>

static jmp_buf fz_jb;
static int fz_exitcode;
static long fz_exits[257];        /* [256] = returned without _exit */
static long fz_runs;
static const char *fz_name = "?";
static long fz_extra[8]; static const char *fz_extra_name[8];

#ifdef FZ_WANT_QMAIL_STUBS
static int fz_qq_fail; static unsigned long long fz_qq_bytes; static long fz_qq_rcpts, fz_qq_opened, fz_qq_ok;
#endif
static void fz_exit(int c) __attribute__((noreturn));
static void fz_exit(int c) { fz_exitcode = c & 255; longjmp(fz_jb, 1); }

/* Growth buffers get slack (n/8 + 30) when they grow and keep their size for the life of a process: in a
   process that lives for 10^5 inputs every small overrun would land in slack left by an earlier, larger input.
   Each run therefore starts with unallocated buffers, as a fresh process does (first allocation = exact size). */
#define FZ_FRESH(sa) do { if ((sa).s) free((sa).s); (sa).s = 0; (sa).len = 0; (sa).a = 0; } while (0)

/* ---- scripted input -------------------------------------------------------------- */
static const unsigned char *fz_in; static size_t fz_inlen, fz_inoff;
static unsigned fz_chunk;         /* 0 = as much as asked for, else at most that many bytes per read */
static int fz_endless;            /* after the data: 0 = EOF, 1 = endless stream of fz_fill */
static unsigned char fz_fill = 'a';

static ssize_t fz_read(int fd, void *b, size_t n)
{
  size_t k = fz_inlen - fz_inoff;
  (void) fd;
  if (!k) {
    if (!fz_endless) return 0;
    memset(b, fz_fill, n); return (ssize_t) n;
  }
  if (n < k) k = n;
  if (fz_chunk && k > fz_chunk) k = fz_chunk;
  memcpy(b, fz_in + fz_inoff, k); fz_inoff += k; return (ssize_t) k;
}

/* every byte the program writes is touched (so that an over-read of the source buffer
   is seen by ASan) and then dropped */
static unsigned char fz_sinkbuf[4096]; static unsigned long long fz_written;
static ssize_t fz_write(int fd, const void *b, size_t n)
{
  size_t o = 0;
  (void) fd;
  while (o < n) { size_t k = n - o; if (k > sizeof fz_sinkbuf) k = sizeof fz_sinkbuf; memcpy(fz_sinkbuf, (const char *) b + o, k); o += k; }
  fz_written += n;
  return (ssize_t) n;
}

/* ---- descriptors ----------------------------------------------------------------- */
static int fz_fdbase = -1;
static void fz_fd_init(void)
{
  int n = open("/dev/null", O_WRONLY);
  if (n >= 0) { dup2(n, 1); if (n != 1) close(n); }      /* programs report on descriptor 1 */
  fz_fdbase = dup(1); if (fz_fdbase >= 0) close(fz_fdbase);
}
/* close whatever the program left open (a real process would have exited) */
static void fz_fd_sweep(void)
{
  int i;
  if (fz_fdbase < 3) return;
  for (i = fz_fdbase; i < fz_fdbase + 24; i++) close(i);
}

/* ---- statistics / documented exit statuses ----------------------------------------- */
static void fz_report(void)
{
  int i, first = 1;
  fprintf(stderr, "NQVSTAT %s runs=%ld exits=", fz_name, fz_runs);
  for (i = 0; i < 256; i++) if (fz_exits[i]) { fprintf(stderr, "%s%d:%ld", first ? "" : ",", i, fz_exits[i]); first = 0; }
  if (first) fprintf(stderr, "-");
  fprintf(stderr, " returned=%ld written=%llu", fz_exits[256], fz_written);
  for (i = 0; i < 8; i++) if (fz_extra_name[i]) fprintf(stderr, " %s=%ld", fz_extra_name[i], fz_extra[i]);
#ifdef FZ_WANT_QMAIL_STUBS
  fprintf(stderr, " qq_opened=%ld qq_accepted=%ld qq_rcpts=%ld qq_bytes=%llu", fz_qq_opened, fz_qq_ok, fz_qq_rcpts, fz_qq_bytes);
#endif
  fprintf(stderr, "\n");
}
static void fz_setup(const char *name)
{
  fz_name = name;
  fz_fd_init();
  atexit(fz_report);
}
/* record the outcome of one run; allowed = 0-terminated list of documented statuses
   (terminated by -1), allow_return = whether falling out without _exit is legitimate */
static void fz_outcome(int exited, const int *allowed, int allow_return)
{
  int i;
  fz_runs++;
  if (!exited) {
    fz_exits[256]++;
    if (!allow_return) { fprintf(stderr, "NQV-UNDOCUMENTED-EXIT %s returned-from-main\n", fz_name); abort(); }
    return;
  }
  fz_exits[fz_exitcode]++;
  for (i = 0; allowed[i] >= 0; i++) if (allowed[i] == fz_exitcode) return;
  fprintf(stderr, "NQV-UNDOCUMENTED-EXIT %s status=%d\n", fz_name, fz_exitcode);
  abort();
}

/* stand-in for the qmail-queue client (qmail.c): records nothing, touches everything */
#ifdef FZ_WANT_QMAIL_STUBS
#include "qmail.h"
static const char *fz_qq_result = "";
int qmail_open(struct qmail *q) { (void) q; fz_qq_fail = 0; fz_qq_opened++; return 0; }
void qmail_put(struct qmail *q, const char *s, size_t n) { (void) q; fz_write(-1, s, n); fz_qq_bytes += n; }
void qmail_fail(struct qmail *q) { (void) q; fz_qq_fail = 1; }
void qmail_from(struct qmail *q, const char *s) { (void) q; fz_write(-1, s, strlen(s) + 1); }
void qmail_to(struct qmail *q, const char *s) { (void) q; fz_write(-1, s, strlen(s) + 1); fz_qq_rcpts++; }
char *qmail_close(struct qmail *q) { (void) q; if (!fz_qq_fail && !*fz_qq_result) fz_qq_ok++; return (char *) (fz_qq_fail ? "Dqq failed (stub)" : fz_qq_result); }
unsigned long qmail_qp(struct qmail *q) { (void) q; return 4242; }
#endif
#endif
