/* C20 target 12b: qmail-lspawn's report() on hostile qmail-local output and exit statuses.
   Real qmail-lspawn.c (included; spawn.c's main loop is not linked); see fuzz_rspawn.c.
   Input: <qmail-local output bytes> <selector byte>: the child's wait status is exit(selector) for
   selector < 128, "crashed" otherwise. */
#include "fuzz_common.h"
#include "substdio.h"
uid_t auto_uidq;                          /* spawn.c's, which is not linked */
static char fz_ebuf[256];
static substdio fz_sse = SUBSTDIO_FDBUF(fz_write, 2, fz_ebuf, sizeof fz_ebuf);
substdio *subfderr = &fz_sse;
#define _exit(x) fz_exit(x)
#include "qmail-lspawn.c"
#undef _exit

static char obuf[1024];

int LLVMFuzzerInitialize(int *argc, char ***argv)
{
  (void) argc; (void) argv;
  fz_setup("lspawn-report");
  fz_extra_name[0] = "reports_K"; fz_extra_name[1] = "reports_Z"; fz_extra_name[2] = "reports_D";
  return 0;
}

int LLVMFuzzerTestOneInput(const uint8_t *data, size_t size)
{
  unsigned sel = size ? data[size - 1] : 0; char *s; substdio ss;
  if (size) size--;
  s = malloc(size ? size : 1);
  if (!s) abort();
  memcpy(s, data, size);
  substdio_fdbuf(&ss, fz_write, -1, obuf, sizeof obuf);
  report(&ss, sel < 128 ? (int) (sel << 8) : 11, s, (int) size);
  if (ss.p > 0) { char c = obuf[0]; fz_extra[c == 'K' ? 0 : c == 'Z' ? 1 : 2]++; }
  substdio_flush(&ss);
  free(s);
  fz_runs++; fz_exits[256]++;
  return 0;
}
