/* C20 target 6: dns.c on hostile resolver answers.  Real dns.c (included, so that the static
   answer buffer can be given back between runs: every run starts with the 513-byte first
   buffer like a fresh qmail-remote); res_query/res_search are scripted by the input.
   The fake resolver behaves like the real one: it copies min(len, anslen) bytes and returns
   len (<= 65535); nothing inside the answer buffer is poisoned.
   Input:  op(1)  namelen(1) name  { declared_len(2, big endian)  content_len(2)  fillpos(2)  content }*
     op bits 0-1: 0 dns_ip  1 dns_mxip  2 dns_ptr  3 dns_mxip;  bit 2: dns_init(1) (res_search)
     declared_len 0 = the lookup fails (h_errno TRY_AGAIN if content_len is odd, else HOST_NOT_FOUND);
     a packet of exactly declared_len bytes is content[0..fillpos) + zero filler + content[fillpos..), or the
     content cut to declared_len if it is longer: a 65535-byte answer whose LAST record ends exactly at the end
     of the packet is thus written in a few hundred input bytes (the filler is the rdata of a TXT record). */
#include "fuzz_common.h"
#define main nqv_dns_nomain
#include "dns.c"
#undef main

static const unsigned char *scr; static size_t scrlen, scroff;
static long lookups, failures, grown, ret_count[8];

static int fake_lookup(const char *name, int class, int type, unsigned char *ans, int anslen)
{
  unsigned d, c, f; unsigned char *pkt; size_t have;
  (void) class; (void) type;
  fz_write(-1, name, strlen(name) + 1);
  lookups++;
  if (anslen > 1000) grown++;
  if (scrlen - scroff < 6) { h_errno = HOST_NOT_FOUND; failures++; return -1; }
  d = (scr[scroff] << 8) | scr[scroff + 1]; c = (scr[scroff + 2] << 8) | scr[scroff + 3]; f = (scr[scroff + 4] << 8) | scr[scroff + 5]; scroff += 6;
  have = scrlen - scroff; if (c < have) have = c;
  if (d == 0) { scroff += have; h_errno = (c & 1) ? TRY_AGAIN : HOST_NOT_FOUND; failures++; return -1; }
  pkt = calloc(d, 1);                      /* exactly d bytes: the fake itself cannot read or write beyond the packet */
  if (!pkt) abort();
  if (have >= d) memcpy(pkt, scr + scroff, d);
  else {
    if (f > have) f = (unsigned) have;
    memcpy(pkt, scr + scroff, f);
    memcpy(pkt + d - (have - f), scr + scroff + f, have - f);
  }
  scroff += have;
  memcpy(ans, pkt, (int) d < anslen ? d : (unsigned) anslen);
  free(pkt);
  return (int) d;
}
int res_query(const char *name, int class, int type, unsigned char *ans, int anslen) { return fake_lookup(name, class, type, ans, anslen); }
int res_search(const char *name, int class, int type, unsigned char *ans, int anslen) { return fake_lookup(name, class, type, ans, anslen); }

static void report_dns(void)
{
  fprintf(stderr, "NQVSTAT-DNS lookups=%ld failed_lookups=%ld lookups_into_64k_buffer=%ld ret0=%ld ret1=%ld hard=%ld soft=%ld mem=%ld\n",
          lookups, failures, grown, ret_count[0], ret_count[1], ret_count[2], ret_count[3], ret_count[4]);
}

int LLVMFuzzerInitialize(int *argc, char ***argv)
{
  (void) argc; (void) argv;
  fz_setup("dns");
  fz_extra_name[0] = "addresses_returned"; fz_extra_name[1] = "names_returned";
  atexit(report_dns);
  return 0;
}

int LLVMFuzzerTestOneInput(const uint8_t *data, size_t size)
{
  static ipalloc ia = { 0 }; static stralloc sa = { 0 };
  unsigned op, nl; int r;
  if (size < 2) return 0;
  op = data[0]; nl = data[1];
  if (nl > size - 2) nl = (unsigned) (size - 2);
  FZ_FRESH(sa); FZ_FRESH(glue); if (ia.ix) free(ia.ix); ia.ix = 0; ia.len = 0; ia.a = 0;
  if (!stralloc_copyb(&sa, (char *) data + 2, nl)) abort();
  scr = data + 2 + nl; scrlen = size - 2 - nl; scroff = 0;
  /* a fresh process: no answer buffer yet, res_query as the lookup function */
  if (response.buf) free(response.buf);
  response.buf = 0; responsebuflen = 0; lookup = res_query;
  if (op & 4) lookup = res_search;         /* what dns_init(1) selects; res_init() itself is not input handling */
  switch (op & 3) {
    case 0: r = dns_ip(&ia, &sa); fz_extra[0] += r == 0 ? ia.len : 0; break;
    case 2: {
      struct ip_address ipa; ipa.d[0] = nl > 0 ? data[2] : 1; ipa.d[1] = 2; ipa.d[2] = 3; ipa.d[3] = 4;
      r = dns_ptr(&sa, &ipa); if (r == 0) { fz_extra[1]++; fz_write(-1, sa.s, sa.len); } break; }
    default: r = dns_mxip(&ia, &sa, (unsigned long) op * 2654435761UL); fz_extra[0] += (r == 0 || r == 1) ? ia.len : 0; break;
  }
  if (ia.len) fz_write(-1, ia.ix, ia.len * sizeof(struct ip_mx));
  fz_runs++; fz_exits[256]++;
  ret_count[r == 0 ? 0 : r == 1 ? 1 : r == DNS_HARD ? 2 : r == DNS_SOFT ? 3 : 4]++;
  return 0;
}
