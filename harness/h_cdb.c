/* C11 monitor (in-process part): random tables are written with the real cdbmss_start/_add/_finish
   (cdbmss.c, cdbmake_*.c) into a memory file and read back with the real cdb_seek/cdb_bread
   (cdb_seek.c, cdb_hash.c, cdb_unpack.c).  Oracle: the harness's own copy of the source table -
   every key returns exactly the value of its FIRST occurrence, keys never added are absent.
   usage: h_cdb rand <ntables> <seed>
   A "case" is one look-up; a table is non-trivial when it has a duplicate key or two different
   keys in one of the 256 buckets (probing needed). */
#define _GNU_SOURCE
#include <sys/mman.h>
#include <unistd.h>
#include "nqvh.h"
#include "cdb.h"
#include "cdbmss.h"

#define MAXE 3000
#define MAXK 48
#define MAXV 96

static unsigned char keys[MAXE][MAXK]; static unsigned klen[MAXE];
static unsigned char vals[MAXE][MAXV]; static unsigned vlen[MAXE];
static int firstof[MAXE];
static int n;
static struct cdbmss c;

/* independent of the code under test: FNV map key -> first index */
#define MAPSZ 8192
static int map[MAPSZ];
static int samekey(int a, const unsigned char *k, unsigned l) { return klen[a] == l && !memcmp(keys[a], k, l); }
static int lookup_first(const unsigned char *k, unsigned l)
{
  uint64_t h = nqv_fnv(k, l) * 0x9E3779B97F4A7C15ULL; unsigned i = (h >> 20) & (MAPSZ - 1);
  for (;; i = (i + 1) & (MAPSZ - 1)) { if (map[i] < 0) return -1; if (samekey(map[i], k, l)) return map[i]; }
}
static void insert(int j)
{
  uint64_t h = nqv_fnv(keys[j], klen[j]) * 0x9E3779B97F4A7C15ULL; unsigned i = (h >> 20) & (MAPSZ - 1);
  for (;; i = (i + 1) & (MAPSZ - 1)) {
    if (map[i] < 0) { map[i] = j; firstof[j] = j; return; }
    if (samekey(map[i], keys[j], klen[j])) { firstof[j] = map[i]; return; }
  }
}

static uint32_t refhash(const unsigned char *k, unsigned l)
{ uint32_t h = 5381; while (l--) h = (h * 33) ^ *k++; return h; }

static void genkey(int profile, unsigned char *k, unsigned *l)
{
  unsigned i;
  switch (profile) {
    case 0: case 1: *l = nqv_rand() % 5; for (i = 0; i < *l; i++) k[i] = "ab-"[nqv_rand() % 3]; break;
    case 2: *l = 1 + nqv_rand() % 2; for (i = 0; i < *l; i++) k[i] = nqv_rand(); break;
    case 3: *l = 2 + nqv_rand() % 3; for (i = 0; i < *l; i++) k[i] = 'a' + nqv_rand() % 26; break;
    case 4: {
      static const char *nm[] = { "joe", "joe-", "joe-list", "joe-list-", "ann", "", "a", "joex", "postmaster", "root" };
      const char *s = nm[nqv_rand() % 10]; unsigned sl = strlen(s);
      k[0] = '!'; memcpy(k + 1, s, sl); *l = 1 + sl;
      if (nqv_rand() % 3 == 0) { k[*l] = 'a' + nqv_rand() % 4; ++*l; }
      if (nqv_rand() % 2) { k[*l] = 0; ++*l; }
      break; }
    default: /* keys forced into few buckets */
      do { *l = 1 + nqv_rand() % 6; for (i = 0; i < *l; i++) k[i] = 'a' + nqv_rand() % 8; } while ((refhash(k, *l) & 255) > 2);
  }
}

static long long lookups, tables, dupkeys, sharedbuckets, absent_probes, nontrivial_tables;

static void viol(const char *rule, int j, const unsigned char *got, size_t gl)
{
  char key[96]; unsigned char in[MAXK + MAXV + 16]; size_t il = 0;
  snprintf(key, sizeof key, "C11/cdb/%s", rule);
  if (j >= 0) { memcpy(in, keys[j], klen[j]); il = klen[j]; in[il++] = '='; memcpy(in + il, vals[firstof[j]], vlen[firstof[j]]); il += vlen[firstof[j]]; }
  nqv_violation(key, rule, in, il, got, gl);
}

static void one_table(int fd)
{
  int profile = nqv_rand() % 6, j, nontriv = 0; unsigned i; uint32 dlen; unsigned char buf[MAXV + 8];
  static int bucketfirst[256];
  uint64_t th = 1469598103934665603ULL;
  switch (profile) {
    case 0: n = nqv_rand() % 5; break;
    case 1: n = 5 + nqv_rand() % 36; break;
    case 2: n = 50 + nqv_rand() % 350; break;
    case 3: n = (nqv_rand() % 8 == 0) ? 1000 + nqv_rand() % 1500 : 100 + nqv_rand() % 300; break;
    case 4: n = 3 + nqv_rand() % 30; break;
    default: n = 4 + nqv_rand() % 60;
  }
  for (i = 0; i < MAPSZ; i++) map[i] = -1;
  for (i = 0; i < 256; i++) bucketfirst[i] = -1;
  if (ftruncate(fd, 0) == -1 || lseek(fd, 0, SEEK_SET) == -1) { fprintf(stderr, "memfd reset failed\n"); exit(3); }
  if (cdbmss_start(&c, fd) == -1) { viol("write-error", -1, (unsigned char *) "start", 5); return; }
  for (j = 0; j < n; j++) {
    genkey(profile, keys[j], &klen[j]);
    vlen[j] = (profile == 3 ? nqv_rand() % 8 : nqv_rand() % (MAXV - 8));
    for (i = 0; i < vlen[j]; i++) vals[j][i] = nqv_rand();
    /* make the value identify its entry so that a later duplicate is never byte-equal by luck */
    if (vlen[j] < 4) vlen[j] = 4;
    vals[j][0] = j; vals[j][1] = j >> 8; vals[j][2] = 0; vals[j][3] = ':';
    insert(j);
    if (firstof[j] != j) { dupkeys++; nontriv = 1; }
    else { int b = refhash(keys[j], klen[j]) & 255; if (bucketfirst[b] >= 0) { sharedbuckets++; nontriv = 1; } else bucketfirst[b] = j; }
    th = (th ^ nqv_fnv(keys[j], klen[j])) * 1099511628211ULL;
    if (cdbmss_add(&c, keys[j], klen[j], vals[j], vlen[j]) == -1) { viol("write-error", j, (unsigned char *) "add", 3); return; }
  }
  if (cdbmss_finish(&c) == -1) { viol("write-error", -1, (unsigned char *) "finish", 6); return; }
  tables++;
  if (nontriv) { nontrivial_tables++; nqv_distinct_h(th); }
  for (j = 0; j < n; j++) {
    int f = firstof[j], r;
    if (n > 600 && f == j && nqv_rand() % 4) continue;     /* sample the big tables */
    r = cdb_seek(fd, keys[j], klen[j], &dlen);
    lookups++;
    if (r == -1) { viol("seek-error", j, 0, 0); continue; }
    if (r == 0) { viol("missing-key", j, 0, 0); continue; }
    if (dlen != vlen[f]) { unsigned char t[4]; t[0] = dlen; t[1] = dlen >> 8; t[2] = dlen >> 16; t[3] = dlen >> 24; viol(dlen == vlen[j] ? "later-duplicate-wins" : "wrong-length", j, t, 4); continue; }
    if (cdb_bread(fd, buf, dlen) == -1) { viol("read-error", j, 0, 0); continue; }
    if (memcmp(buf, vals[f], dlen)) { viol("wrong-value", j, buf, dlen); continue; }
    if (j < 3 && tables % 512 == 1) nqv_sample(keys[j], klen[j], 1);
  }
  /* keys that were never added (mutations of present keys and fresh ones) */
  for (j = 0; j < 12; j++) {
    unsigned char k[MAXK]; unsigned l; int r;
    if (n && (j & 1)) { int s = nqv_rand() % n; memcpy(k, keys[s], klen[s]); l = klen[s];
      switch (nqv_rand() % 3) { case 0: k[l++] = nqv_rand(); break; case 1: if (l) l--; break; default: if (l) k[nqv_rand() % l] ^= 1 << (nqv_rand() % 8); } }
    else genkey(profile, k, &l);
    if (lookup_first(k, l) >= 0) continue;
    r = cdb_seek(fd, k, l, &dlen);
    lookups++; absent_probes++;
    if (r == 1) { nqv_violation("C11/cdb/phantom-key", "phantom-key", k, l, 0, 0); }
    else if (r == -1) { nqv_violation("C11/cdb/seek-error", "seek-error-absent", k, l, 0, 0); }
  }
}

int main(int argc, char **argv)
{
  long long nt, t; int fd;
  nqv_init();
  if (argc < 4 || strcmp(argv[1], "rand")) { fprintf(stderr, "usage: h_cdb rand <ntables> <seed>\n"); return 2; }
  nt = atoll(argv[2]); nqv_srand(strtoull(argv[3], 0, 10));
  fd = memfd_create("nqv-cdb", 0);
  if (fd < 0) { perror("memfd_create"); return 3; }
  for (t = 0; t < nt; t++) one_table(fd);
  nqv_counter("cases", lookups);
  nqv_counter("cdb_tables", tables);
  nqv_counter("cdb_tables_nontrivial", nontrivial_tables);
  nqv_counter("cdb_duplicate_keys", dupkeys);
  nqv_counter("cdb_keys_sharing_a_bucket", sharedbuckets);
  nqv_counter("cdb_absent_probes", absent_probes);
  nqv_counter("distinct_nontrivial_inputs", nqv_dcount);
  nqv_finish();
  return 0;
}
