/* C20 target 5: RFC 822 header handling as qmail-inject does it.  Real qmail-inject.c from
   main(): headerbody() -> hfield_known/valid -> token822_parse / token822_addrlist (with the
   rewriting callbacks: token822_readyplus, reverse, unquote) / token822_unparse, newfield,
   quote2.  Standard input is the fuzz input; standard output/error are sinks; the
   qmail-queue client is a stub.  Lists built per message are freed between runs (a real
   process exits instead).
   Input: <message bytes> <selector byte>: bits 0-2 argv variant, bits 3-5 QMAILINJECT flag
   set, bit 6 read chunking (whole / 5 bytes), bit 7 QMAILMFTFILE on. */
#define FZ_WANT_QMAIL_STUBS
#include "fuzz_common.h"
#include "substdio.h"
#include "env.h"
static char fz_ibuf[8192], fz_obuf[8192], fz_ebuf[256];
static substdio fz_ssi = SUBSTDIO_FDBUF(fz_read, 0, fz_ibuf, sizeof fz_ibuf);
static substdio fz_sso = SUBSTDIO_FDBUF(fz_write, 1, fz_obuf, sizeof fz_obuf);
static substdio fz_sse = SUBSTDIO_FDBUF(fz_write, 2, fz_ebuf, sizeof fz_ebuf);
substdio *subfdin = &fz_ssi;
substdio *subfdout = &fz_sso;
substdio *subfderr = &fz_sse;

#define _exit(x) fz_exit(x)
#define puts nqv_prog_puts
#define main nqv_inject_main
#include "qmail-inject.c"
#undef main
#undef puts
#undef _exit

static const int allowed[] = { 0, 100, 111, -1 };
static char *mftfile;

static void free_saa(saa *l)
{
  unsigned int i;
  for (i = 0; i < l->len; i++) { if (l->sa[i].s) free(l->sa[i].s); l->sa[i] = sauninit; }
  l->len = 0;
}

int LLVMFuzzerInitialize(int *argc, char ***argv)
{
  (void) argc; (void) argv;
  fz_setup("inject822");
  fz_extra_name[0] = "recipients_extracted"; fz_extra_name[1] = "header_fields_kept";
  mftfile = getenv("NQV_FZ_MFTFILE");
  return 0;
}

int LLVMFuzzerTestOneInput(const uint8_t *data, size_t size)
{
  static char *av[8][6] = {
    { "qmail-inject", "-n", 0 },
    { "qmail-inject", "-N", 0 },
    { "qmail-inject", "-n", "-f", "\"odd sender\"@[1.2.3.4]", 0 },
    { "qmail-inject", "-n", "-a", "r1@x.test", "r2+", 0 },
    { "qmail-inject", "-N", "-H", "a b@c", 0 },
    { "qmail-inject", "-h", "-n", 0 },
    { "qmail-inject", "-N", "-f", "", "rr", 0 },
    { "qmail-inject", "-n", "-A", 0 },
  };
  static const char *qi[8] = { "", "c", "s", "f", "i", "r", "m", "csfirm" };
  unsigned sel = size ? data[size - 1] : 0;
  volatile int exited = 0;
  char **a = av[sel & 7]; int ac = 0;
  if (size) size--;
  while (a[ac]) ac++;
  fz_in = data; fz_inlen = size; fz_inoff = 0; fz_chunk = (sel & 64) ? 5 : 0; fz_endless = 0;
  fz_ssi.p = 0; fz_ssi.n = sizeof fz_ibuf; fz_sso.p = 0; fz_sse.p = 0;
  env_put2("QMAILINJECT", (char *) qi[(sel >> 3) & 7]);
  if ((sel & 128) && mftfile) env_put2("QMAILMFTFILE", mftfile); else env_unset("QMAILMFTFILE");
  flagdeletesender = flagdeletefrom = flagdeletemessid = flagnamecomment = flaghackmess = flaghackrecip = 0;
  free_saa(&savedh); free_saa(&hrlist); free_saa(&tocclist); free_saa(&hrrlist); free_saa(&reciplist);
  if (sender.s) free(sender.s); sender.s = 0; sender.len = sender.a = 0;
  if (flagmft) { constmap_free(&mapmft); flagmft = 0; }
  flagresent = 0;
  FZ_FRESH(hfbuf); FZ_FRESH(torecip); FZ_FRESH(envsbuf); FZ_FRESH(defaultfrom); FZ_FRESH(defaultreturnpath); FZ_FRESH(hackedruser);
  { token822_alloc *tl[] = { &hfin, &hfrewrite, &hfaddr, &tr, &envs, &df, &drp }; unsigned k;
    for (k = 0; k < sizeof tl / sizeof tl[0]; k++) { if (tl[k]->t) free(tl[k]->t); tl[k]->t = 0; tl[k]->len = 0; tl[k]->a = 0; } }
  subgetoptind = 1; subgetoptpos = 0;
  if (!setjmp(fz_jb)) nqv_inject_main(ac, a); else exited = 1;
  fz_extra[0] += reciplist.len + hrlist.len + hrrlist.len; fz_extra[1] += savedh.len;
  fz_outcome(exited, allowed, 0);
  fz_fd_sweep();
  return 0;
}
