/* C09 monitor (a): the real qmail-remote.c smtp()/smtpcode()/blast()/quit()/dropped() run
   in-process against a scripted SMTP server.  timeoutread()/timeoutwrite() are replaced at
   link time by the server below (a reactive state machine: it answers the command it has
   just received, per phase, as the script says); _exit is trapped; the report stream the
   program writes to subfdoutsmall is captured.

   A script gives one action per phase (greeting, HELO, MAIL, RCPT of recipient 0..n-1, DATA,
   final dot).  RCPT replies are keyed by the *address* in the command (r<i>@dest.test), so
   reports printed in another order than the arguments show up as wrong folded verdicts.

   The oracle is the statement of C09 (see nqv/refmodel/remote_model.py, which re-judges the
   emitted records independently from the script alone): it uses what the server actually
   delivered, never the client's control flow.

   usage: h_remote_smtp enum <family> <n> <wmode> <msgkind> <job> <njobs> <emit_every> [emitfile]
          h_remote_smtp focus <nmax> <emit_every> [emitfile]
          h_remote_smtp rand <count> <seed> <emit_every> [emitfile]
          h_remote_smtp one <spec>
   spec = n;wmode;msgkind;kind.code.form,...   (one action per phase) */
#include <errno.h>
#include <setjmp.h>
#include "nqvh.h"

static jmp_buf jb; static int exited, exitcode;
static void nqv_exit(int c) __attribute__((noreturn));
static void nqv_exit(int c) { exited = 1; exitcode = c; longjmp(jb, 1); }
#define _exit(x) nqv_exit(x)
#define main nqv_remote_main
#include "qmail-remote.c"
#undef main
#undef _exit

/* ------------------------------------------------------------------ scripts */
enum { K_REPLY, K_EOF, K_TIMEOUT, K_PEOF, K_PTIMEOUT, K_WFAIL, K_WTIMEOUT, K_WFAILDOT, K_NKINDS };
enum { PK_G, PK_H, PK_M, PK_R, PK_D, PK_T };
static const char *pkname[] = { "greet", "helo", "mail", "rcpt", "data", "dot" };
static const char *kname[] = { "reply", "eof", "timeout", "partial_eof", "partial_timeout", "wfail", "wtimeout", "wfaildot" };
struct act { int kind, code, form; };
#define MAXR 6
#define MAXP (5 + MAXR)
static struct act script[MAXP];
static int nr, np, wmode, msgkind;
#define DATAP (3 + nr)
#define DOTP (4 + nr)

static int pkind(int pos)
{
  if (pos < 3) return pos;
  if (pos < 3 + nr) return PK_R;
  return pos == 3 + nr ? PK_D : PK_T;
}
static int acc(int pk) { return pk == PK_G ? 220 : pk == PK_D ? 354 : 250; }
static int alt2(int pk) { return pk == PK_G ? 250 : pk == PK_H ? 220 : 299; }
static int third(int pk) { return pk == PK_D ? 250 : 354; }
static const int CODES16[16] = { 200, 220, 250, 251, 299, 300, 354, 399, 400, 421, 450, 499, 500, 550, 554, 599 };
#define NFORMS 9
#define NPFORMS 6
#define FULLN (16 * NFORMS + 4 * NPFORMS + 6)

static int fam_size(int fam, int pk)
{
  switch (fam) {
  case 1: return pk == PK_G ? 10 : pk == PK_T ? 13 : 12;
  case 2: return 18;
  case 3: return 14;
  }
  return FULLN;
}
static void full_act(int pk, int j, struct act *a)
{
  a->kind = K_REPLY; a->code = acc(pk); a->form = 0;
  if (j < 16 * NFORMS) { a->code = CODES16[j / NFORMS]; a->form = j % NFORMS; return; }
  j -= 16 * NFORMS;
  if (j < 2 * NPFORMS) { a->kind = K_PEOF; a->form = j % NPFORMS; a->code = j < NPFORMS ? acc(pk) : 550; return; }
  j -= 2 * NPFORMS;
  if (j < 2 * NPFORMS) { a->kind = K_PTIMEOUT; a->form = j % NPFORMS; a->code = j < NPFORMS ? acc(pk) : 550; return; }
  j -= 2 * NPFORMS;
  a->code = 0;
  switch (j) {
  case 0: a->kind = K_EOF; break;
  case 1: a->kind = K_EOF; a->form = 1; break;
  case 2: a->kind = K_TIMEOUT; break;
  case 3: a->kind = pk == PK_G ? K_EOF : K_WFAIL; break;
  case 4: a->kind = pk == PK_G ? K_TIMEOUT : K_WTIMEOUT; break;
  default: a->kind = pk == PK_T ? K_WFAILDOT : pk == PK_G ? K_EOF : K_WFAIL; break;
  }
}
static void fam_act(int fam, int pk, int j, struct act *a)
{
  static const int f3[3] = { 0, 1, 3 };
  a->kind = K_REPLY; a->code = acc(pk); a->form = 0;
  switch (fam) {
  case 1:
    switch (j) {
    case 0: break;
    case 1: a->code = alt2(pk); break;
    case 2: a->code = third(pk); break;
    case 3: a->code = 451; break;
    case 4: a->code = 550; break;
    case 5: a->kind = K_EOF; a->code = 0; break;
    case 6: a->kind = K_EOF; a->code = 0; a->form = 1; break;
    case 7: a->kind = K_TIMEOUT; a->code = 0; break;
    case 8: a->kind = K_PEOF; a->form = 2; break;
    case 9: a->kind = K_PTIMEOUT; a->form = 3; break;
    case 10: a->kind = K_WFAIL; a->code = 0; break;
    case 11: a->kind = K_WTIMEOUT; a->code = 0; break;
    default: a->kind = K_WFAILDOT; a->code = 0; break;
    }
    return;
  case 2:
    if (j < 16) a->code = CODES16[j];
    else { a->kind = j == 16 ? K_EOF : K_TIMEOUT; a->code = 0; }
    return;
  case 3:
    if (j < 12) {
      int c = j / 3;
      a->code = c == 0 ? acc(pk) : c == 1 ? third(pk) : c == 2 ? 451 : 550;
      a->form = f3[j % 3];
    } else if (j == 12) { a->kind = K_EOF; a->code = 0; }
    else { a->kind = K_PEOF; a->form = 3; }
    return;
  }
  full_act(pk, j, a);
}

/* ------------------------------------------------------------------ scripted server */
static unsigned char sv_out[32768]; static size_t sv_olen, sv_opos, sv_first, sv_step;
static int sv_closed;            /* 0 open, 1 closed (EOF after pending bytes), 2 reset */
static int sv_mode;              /* 0 commands, 1 message data */
static int sv_tst;               /* terminator automaton: 2 = just after CR LF */
static long sv_databytes;
static char sv_line[4096]; static size_t sv_ll;
static int sv_next;              /* next phase the server expects */
static int delivered[MAXP];      /* code of the complete reply the server sent in that phase, 0 = none */
static int lost, lost_at, dot_received, maxphase, sv_quit, unscripted_stall, odd_commands;
static int wchunk;

static struct act *getact(int p)
{
  if (p > maxphase) maxphase = p;
  return &script[p];
}
static void q(const char *s, size_t n)
{
  if (sv_olen + n > sizeof sv_out) n = sizeof sv_out - sv_olen;
  memcpy(sv_out + sv_olen, s, n); sv_olen += n;
}
static void qs(const char *s) { q(s, strlen(s)); }
static void fmt_reply(int code, int form, int p)
{
  char c[16], t[128]; int i;
  snprintf(c, sizeof c, "%03d", code);
  sv_first = sv_step = 0;
  switch (form) {
  case 2: sv_first = 2; /* split inside the code */ /* fallthrough */
  case 0: snprintf(t, sizeof t, "%s reply for phase %d\r\n", c, p); qs(t); break;
  case 3: sv_first = 1; sv_step = 1; /* one byte per read */ /* fallthrough */
  case 1: snprintf(t, sizeof t, "%s-first line\r\n%s-second\r\n%s last p%d\r\n", c, c, c, p); qs(t); break;
  case 4: snprintf(t, sizeof t, "%s lf only\n", c); qs(t); break;
  case 5: qs(c); q(" a\0Kfake\0rb\0\r\n", 14); break;      /* NULs and report letters in the text */
  case 6:                                                     /* longer than HUGESMTPTEXT */
    for (i = 0; i < 70; i++) { qs(c); qs("-"); memset(t, 'x', 88); t[88] = 0; qs(t); qs("\r\n"); }
    qs(c); qs(" end\r\n"); break;
  case 7: snprintf(t, sizeof t, "%s-first\r\n", c); qs(t); sv_first = strlen(t);
    snprintf(t, sizeof t, "%s second\r\n", c); qs(t); break;  /* split at the line boundary */
  default: qs(c); qs("\r\n"); break;                          /* 8: bare code */
  }
}
static void fmt_partial(int code, int form)
{
  char c[16], t[64];
  snprintf(c, sizeof c, "%03d", code);
  sv_first = sv_step = 0;
  switch (form) {
  case 0: q(c, 1); break;
  case 1: qs(c); break;
  case 2: qs(c); qs(" text without end"); break;
  case 3: snprintf(t, sizeof t, "%s-first\r\n", c); qs(t); break;
  case 4: snprintf(t, sizeof t, "%s-first\r\n", c); qs(t); q(c, 2); break;
  default: qs(c); qs(" text\r"); break;
  }
}
static void lose(int p) { if (!lost) { lost = 1; lost_at = p; } }
static void sv_phase(int p)
{
  struct act *a = getact(p);
  sv_next = p + 1;
  switch (a->kind) {
  case K_REPLY:
    fmt_reply(a->code, a->form, p);
    delivered[p] = a->code;
    if (p == DATAP && a->code < 400) { sv_mode = 1; sv_tst = 2; sv_databytes = 0; }
    break;
  case K_EOF: sv_closed = a->form ? 2 : 1; lose(p); break;
  case K_TIMEOUT: lose(p); break;
  case K_PEOF: fmt_partial(a->code, a->form); sv_closed = 1; lose(p); break;
  case K_PTIMEOUT: fmt_partial(a->code, a->form); lose(p); break;
  default: sv_closed = 1; lose(p); break;     /* a write-failure action where nothing is written */
  }
}
static void sv_command(void)
{
  char v[5]; int i;
  for (i = 0; i < 4; i++) v[i] = (size_t) i < sv_ll ? (sv_line[i] & ~0x20) : 0;
  v[4] = 0;
  if (sv_closed) return;
  if (!strcmp(v, "HELO") || !strcmp(v, "EHLO")) sv_phase(1);
  else if (!strcmp(v, "MAIL")) sv_phase(2);
  else if (!strcmp(v, "RCPT")) {
    /* RCPT TO:<r<i>@dest.test> */
    int k = -1; char *p = memchr(sv_line, '<', sv_ll);
    if (p && p + 2 < sv_line + sv_ll && p[1] == 'r') k = atoi(p + 2);
    if (k < 0 || k >= nr) { odd_commands++; qs("550 unknown recipient\r\n"); }
    else sv_phase(3 + k);
  }
  else if (!strcmp(v, "DATA")) sv_phase(DATAP);
  else if (!strcmp(v, "QUIT")) { sv_quit = 1; sv_first = sv_step = 0; qs("221 bye\r\n"); sv_closed = 1; }
  else { odd_commands++; sv_first = sv_step = 0; qs("502 unimplemented\r\n"); }
}
static int tstep(int st, unsigned char c)
{
  switch (st) {
  case 1: return c == '\n' ? 2 : c == '\r' ? 1 : 0;
  case 2: return c == '.' ? 3 : c == '\r' ? 1 : 0;
  case 3: return c == '\r' ? 4 : 0;
  case 4: return c == '\n' ? 5 : c == '\r' ? 1 : 0;
  }
  return c == '\r' ? 1 : 0;
}
static void sv_feed(const unsigned char *b, size_t n)
{
  size_t i;
  for (i = 0; i < n; i++) {
    if (sv_mode == 1) {
      sv_databytes++;
      sv_tst = tstep(sv_tst, b[i]);
      if (sv_tst == 5) { sv_mode = 0; sv_ll = 0; dot_received = 1; if (!sv_closed) sv_phase(DOTP); }
    } else {
      if (sv_ll < sizeof sv_line) sv_line[sv_ll++] = b[i];
      if (b[i] == '\n') { sv_command(); sv_ll = 0; }
    }
  }
}
static long nreads, nwrites;
static int quitfail;
ssize_t timeoutread(int t, int fd, char *buf, size_t len)
{
  size_t k = sv_olen - sv_opos;
  nreads++;
  if (k && len) {
    if (sv_first) { if (k > sv_first) k = sv_first; sv_first = 0; }
    else if (sv_step && k > sv_step) k = sv_step;
    if (k > len) k = len;
    memcpy(buf, sv_out + sv_opos, k); sv_opos += k;
    return k;
  }
  if (sv_closed == 1) return 0;
  if (sv_closed == 2) { errno = ECONNRESET; return -1; }
  /* the client waits and the server has nothing to say: a stall */
  if (!lost) { unscripted_stall++; lose(sv_next < np ? sv_next : np - 1); }
  errno = ETIMEDOUT;
  return -1;
}
ssize_t timeoutwrite(int t, int fd, const void *buf, size_t len)
{
  size_t k = len;
  nwrites++;
  if (sv_closed) return len;           /* the kernel still takes it; the next read tells */
  if (quitfail && len >= 4 && !memcmp(buf, "QUIT", 4)) { lose(np - 1); errno = EPIPE; return -1; }   /* experiment knob, "one" mode only */
  if (sv_next < np && ((sv_mode == 0 && sv_ll == 0) || (sv_mode == 1 && sv_next == DOTP))) {
    struct act *a = getact(sv_next);
    if (sv_mode == 0 || sv_databytes == 0) {
      if (a->kind == K_WFAIL) { lose(sv_next); errno = EPIPE; return -1; }
      if (a->kind == K_WTIMEOUT) { lose(sv_next); errno = ETIMEDOUT; return -1; }
    }
    if (a->kind == K_WFAILDOT && sv_mode == 1) {
      /* fail the write that would complete the terminator: the dot never arrives */
      int st = sv_tst; size_t i;
      for (i = 0; i < len && st != 5; i++) st = tstep(st, ((const unsigned char *) buf)[i]);
      if (st == 5) { lose(sv_next); errno = EPIPE; return -1; }
    }
  }
  if (wchunk && k > (size_t) wchunk) k = wchunk;
  sv_feed(buf, k);
  return k;
}

/* ------------------------------------------------------------------ client side plumbing */
static unsigned char cap[1 << 16]; static size_t caplen; static int capover;
static ssize_t h_cap(int fd, const char *b, size_t n)
{
  if (caplen + n > sizeof cap) { capover = 1; return n; }
  memcpy(cap + caplen, b, n); caplen += n; return n;
}
static unsigned char msgbig[2600]; static const unsigned char *msg; static size_t msglen, msgoff;
static ssize_t h_rd(int fd, char *b, size_t n)
{
  size_t k = msglen - msgoff;
  if (n < k) k = n;
  memcpy(b, msg + msgoff, k); msgoff += k; return k;
}
static void setup_once(void)
{
  size_t i;
  if (!stralloc_copys(&helohost, "client.test")) abort();
  addrmangle(&sender, "s@client.test");
  partner.d[0] = 127; partner.d[1] = 0; partner.d[2] = 0; partner.d[3] = 1;
  for (i = 0; i < sizeof msgbig; i++) msgbig[i] = (i % 61 == 60) ? '\n' : (i % 61 == 0 && i % 3 == 0) ? '.' : 'a' + i % 26;
  msgbig[sizeof msgbig - 1] = '\n';
  subfdoutsmall->op = h_cap;
}
static int cur_nr = -1;
static void setup_rcpts(int n)
{
  int i; char a[64];
  if (n == cur_nr) return;
  reciplist.len = 0;
  if (!saa_readyplus(&reciplist, n + 1)) abort();
  for (i = 0; i < n; i++) {
    reciplist.sa[i] = sauninit;
    snprintf(a, sizeof a, "r%d@dest.test", i);
    addrmangle(reciplist.sa + i, a);
  }
  reciplist.len = n;
  cur_nr = n;
}

static void run_case(void)
{
  static const char small[] = "Subject: t\n\nbody\n.dot line\n";
  int i;
  np = nr + 5;
  setup_rcpts(nr);
  sv_olen = sv_opos = sv_first = sv_step = 0; sv_closed = 0; sv_mode = 0; sv_tst = 2; sv_databytes = 0; sv_ll = 0;
  sv_next = 0; lost = 0; lost_at = -1; dot_received = 0; maxphase = 0; sv_quit = 0;
  for (i = 0; i < MAXP; i++) delivered[i] = 0;
  wchunk = wmode == 1 ? 7 : wmode == 2 ? 1 : 0;
  if (msgkind) { msg = msgbig; msglen = sizeof msgbig; } else { msg = (const unsigned char *) small; msglen = sizeof small - 1; }
  msgoff = 0;
  {
    substdio a = SUBSTDIO_FDBUF(h_rd, -1, inbuf, sizeof inbuf);
    substdio b = SUBSTDIO_FDBUF(safewrite, -1, smtptobuf, sizeof smtptobuf);
    substdio c = SUBSTDIO_FDBUF(saferead, -1, smtpfrombuf, sizeof smtpfrombuf);
    ssin = a; smtpto = b; smtpfrom = c;
  }
  flagcritical = 0; smtptext.len = 0;
  subfdoutsmall->p = 0; caplen = 0; capover = 0;
  exited = 0; exitcode = -1;
  sv_phase(0);                       /* the greeting is sent on connect */
  if (!setjmp(jb)) smtp();
}

/* ------------------------------------------------------------------ oracle */
static long long cases, nontrivial, dupruns, foldK, foldZ, foldD, msgK, msgZ, msgD, dupflag, fewer, giveupD,
  kjust, multi_or_split, emitted, accepted_not_success;
static long long combo[6][8];
static const char *clsname[8] = { "2xx", "3xx", "4xx", "5xx", "eof", "timeout", "partial", "wfail" };
static int aclass(const struct act *a)
{
  switch (a->kind) {
  case K_REPLY: return a->code / 100 - 2;
  case K_EOF: return 4;
  case K_TIMEOUT: return 5;
  case K_PEOF: case K_PTIMEOUT: return 6;
  }
  return 7;
}
static char specbuf[512], showbuf[1024];
static void mkspec(void)
{
  int i; size_t o = 0;
  o += snprintf(specbuf + o, sizeof specbuf - o, "%d;%d;%d;", nr, wmode, msgkind);
  for (i = 0; i < np; i++) o += snprintf(specbuf + o, sizeof specbuf - o, "%s%d.%d.%d", i ? "," : "", script[i].kind, script[i].code, script[i].form);
}
static size_t mkshow(void)
{
  int i; size_t o = 0, k;
  o += snprintf(showbuf + o, sizeof showbuf - o, "n=%d", nr);
  for (i = 0; i <= maxphase && i < np; i++) {
    const struct act *a = &script[i]; int pk = pkind(i);
    o += snprintf(showbuf + o, sizeof showbuf - o, " %s", pkname[pk]);
    if (pk == PK_R) o += snprintf(showbuf + o, sizeof showbuf - o, "%d", i - 3);
    if (a->kind == K_REPLY) o += snprintf(showbuf + o, sizeof showbuf - o, "=%d", a->code);
    else o += snprintf(showbuf + o, sizeof showbuf - o, "=%s", kname[a->kind]);
    if (a->form) o += snprintf(showbuf + o, sizeof showbuf - o, "/f%d", a->form);
  }
  o += snprintf(showbuf + o, sizeof showbuf - o, " => ");
  k = caplen; if (k > sizeof showbuf - o - 1) k = sizeof showbuf - o - 1;
  if (k > 200) k = 200;
  memcpy(showbuf + o, cap, k); o += k;
  return o;
}
static const char *sitename(int i, char *buf, size_t n)
{
  int chain[6], want[6] = { 220, 250, 0, 0, 0, 0 }, j;
  chain[0] = 0; chain[1] = 1; chain[2] = 2; chain[3] = 3 + i; chain[4] = DATAP; chain[5] = DOTP;
  for (j = 0; j < 6; j++) {
    int c = delivered[chain[j]];
    if (!c) { snprintf(buf, n, "%s-%s", pkname[j], lost_at == chain[j] ? "lost" : "unreached"); return buf; }
    if ((want[j] && c != want[j]) || c >= 400) { snprintf(buf, n, "%s-%dxx", pkname[j], c / 100); return buf; }
  }
  return "accepted";
}
static void viol(const char *rule, const char *site)
{
  char key[96];
  snprintf(key, sizeof key, "C09/smtp/%s/%s", rule, site);
  mkspec();
  nqv_violation(key, rule, (const unsigned char *) specbuf, strlen(specbuf), cap, caplen);
}
static int a4(int c) { return c >= 400 && c < 500; }
static void judge(int verbose)
{
  char rr[16], sb[48]; int nrr = 0, mr = 0, wf = 1, i; const unsigned char *mtext = 0; size_t mlen = 0, p = 0;
  const char *wfwhy = "no-message-report";
  if (!exited) { viol("smtp-returned", "x"); return; }
  if (exitcode != 0) viol("nonzero-exit", sitename(nr - 1, sb, sizeof sb));
  if (capover) { viol("malformed-output", "overlong"); return; }
  while (p < caplen) {
    size_t e = p; unsigned char c;
    while (e < caplen && cap[e]) e++;
    if (e == caplen) { wf = 0; wfwhy = "unterminated-report"; break; }
    c = cap[p];
    if (!mr && (c == 'r' || c == 'h' || c == 's')) { if (nrr < 16) rr[nrr] = c; nrr++; }
    else if (!mr && (c == 'K' || c == 'Z' || c == 'D')) { mr = c; mtext = cap + p; mlen = e - p; }
    else { wf = 0; wfwhy = mr ? "report-after-message-report" : "unknown-report-letter"; break; }
    p = e + 1;
  }
  if (!mr) wf = 0;
  if (!wf) { viol("malformed-output", wfwhy); return; }
  if (nrr > nr) viol("more-recipient-reports-than-recipients", sitename(nr - 1, sb, sizeof sb));
  if (mr == 'K') msgK++; else if (mr == 'Z') msgZ++; else msgD++;
  if (nrr < nr) fewer++;
  for (i = 0; i < nr; i++) {
    int f = i < nrr && i < 16 ? (rr[i] == 'h' ? 'D' : rr[i] == 's' ? 'Z' : mr) : mr;
    int g = delivered[0], h = delivered[1], m = delivered[2], r = delivered[3 + i], d = delivered[DATAP], t = delivered[DOTP];
    int okK = g == 220 && h == 250 && m && m < 400 && r && r < 400 && d && d < 400 && t && t < 400;
    int has5 = m >= 500 || r >= 500 || d >= 500 || t >= 500;
    int temp = a4(m) || a4(r) || a4(d) || a4(t) || (g && g != 220) || (h && h != 250) || lost;
    int ok = f == 'K' ? okK : f == 'D' ? has5 : (!has5 || temp);
    if (verbose) fprintf(stderr, "recipient %d: fold %c allowed %s%s%s site %s\n", i, f, okK ? "K" : "", has5 ? "D" : "",
                         (!has5 || temp) ? "Z" : "", sitename(i, sb, sizeof sb));
    if (f == 'K') { foldK++; if (okK) kjust++; } else if (f == 'Z') foldZ++; else foldD++;
    if (okK && f != 'K') accepted_not_success++;
    if (!ok) viol(f == 'K' ? "success-unjustified" : f == 'D' ? "permanent-without-5xx" : "5xx-not-permanent", sitename(i, sb, sizeof sb));
  }
  if (mr == 'D' && nrr == nr && !delivered[DATAP]) giveupD++;
  if (dot_received && lost && !delivered[DOTP]) {
    static const char pd[] = "Possible duplicate";
    int found = 0; size_t k;
    for (k = 0; mlen >= sizeof pd - 1 && k + sizeof pd - 1 <= mlen; k++) if (!memcmp(mtext + k, pd, sizeof pd - 1)) { found = 1; break; }
    if (mr != 'Z' || !found) viol("no-possible-duplicate", "dot-lost"); else dupflag++;
  }
}
static FILE *emit; static long emit_every = 0;
static void account(int force_emit)
{
  int i, nt = 0, ms = 0;
  cases++;
  for (i = 0; i <= maxphase && i < np; i++) {
    const struct act *a = &script[i]; int pk = pkind(i);
    combo[pk][aclass(a)]++;
    if (a->kind != K_REPLY || a->code != acc(pk) || a->form) nt = 1;
    if (a->kind == K_REPLY && a->form && a->form != 4 && a->form != 8) ms = 1;
  }
  if (wmode || msgkind) nt = 1;
  if (ms) multi_or_split++;
  if (nt) {
    unsigned char hb[8 + MAXP * 3]; size_t o = 0;
    nontrivial++;
    hb[o++] = nr; hb[o++] = wmode; hb[o++] = msgkind;
    for (i = 0; i <= maxphase && i < np; i++) { hb[o++] = script[i].kind * 16 + script[i].form; hb[o++] = script[i].code >> 8; hb[o++] = script[i].code & 255; }
    nqv_distinct(hb, o);
  }
  judge(0);
  if (emit && (force_emit || (emit_every && cases % emit_every == 0))) {
    size_t k; static const char hx[] = "0123456789abcdef";
    mkspec();
    fprintf(emit, "R %s %d %d ", specbuf, maxphase, exited ? exitcode : -1);
    if (!caplen) putc('-', emit);
    for (k = 0; k < caplen; k++) { putc(hx[cap[k] >> 4], emit); putc(hx[cap[k] & 15], emit); }
    putc('\n', emit);
    emitted++;
  }
}

/* ------------------------------------------------------------------ enumeration */
static void enumerate(int fam, int job, int njobs, int emit_all)
{
  int idx[MAXP], i, r; long every;
  np = nr + 5;
  for (i = 0; i < MAXP; i++) idx[i] = 0;
  every = fam == 1 ? 400 : 40000;
  for (;;) {
    unsigned h = ((idx[0] * 131u + idx[1]) * 131u + idx[2]) * 131u + idx[3];
    if ((int) (h % (unsigned) njobs) != job) r = 3;
    else {
      int canon = 1;
      for (i = 0; i < np; i++) fam_act(fam, pkind(i), idx[i], &script[i]);
      run_case();
      r = maxphase;
      for (i = r + 1; i < np; i++) if (idx[i]) canon = 0;
      if (canon) {
        account(emit_all);
        nqv_sample((const unsigned char *) showbuf, mkshow(), every);
      } else dupruns++;
    }
    while (r >= 0) { if (++idx[r] < fam_size(fam, pkind(r))) break; idx[r] = 0; r--; }
    if (r < 0) break;
    for (i = r + 1; i < np; i++) idx[i] = 0;
  }
}
static void focus(int nmax)
{
  int fp, j, i;
  for (nr = 1; nr <= nmax; nr++) {
    np = nr + 5;
    for (wmode = 0; wmode < 3; wmode++) for (fp = 0; fp < np; fp++) for (j = 0; j < FULLN; j++) {
      msgkind = (j + fp) & 1;
      for (i = 0; i < np; i++) { script[i].kind = K_REPLY; script[i].code = acc(pkind(i)); script[i].form = 0; }
      full_act(pkind(fp), j, &script[fp]);
      /* give the recipients behind the focus some variety so that folding matters */
      if (fp < 3 && nr > 1) script[3 + (j % nr)].code = (j & 1) ? 550 : 451;
      run_case();
      account(1);
      nqv_sample((const unsigned char *) showbuf, mkshow(), 900);
    }
  }
}
static void randoms(long long n, uint64_t seed)
{
  long long k; int i;
  nqv_srand(seed);
  for (k = 0; k < n; k++) {
    nr = 1 + nqv_rand() % 5; np = nr + 5;
    wmode = nqv_rand() % 3; msgkind = nqv_rand() & 1;
    for (i = 0; i < np; i++) {
      int pk = pkind(i); unsigned r = nqv_rand() % 100;
      if (r < 60) {
        unsigned f = nqv_rand() % 40;
        script[i].kind = K_REPLY; script[i].code = acc(pk);
        script[i].form = f < NFORMS ? (int) f : 0;
        if (script[i].form == 6 && (nqv_rand() & 3)) script[i].form = 1;
        if (pk >= PK_M && (nqv_rand() % 8) == 0) script[i].code = (nqv_rand() & 1) ? 200 + nqv_rand() % 100 : 300 + nqv_rand() % 100;
      } else if (r < 75) {
        script[i].kind = K_REPLY; script[i].code = 200 + nqv_rand() % 400; script[i].form = nqv_rand() % NFORMS;
        if (script[i].form == 6 && (nqv_rand() & 3)) script[i].form = 0;
      } else full_act(pk, nqv_rand() % FULLN, &script[i]);
      if (script[i].kind == K_REPLY && script[i].form == 6 && (nqv_rand() & 1)) script[i].form = 3;
    }
    run_case();
    account(0);
    nqv_sample((const unsigned char *) showbuf, mkshow(), n / 5 + 1);
  }
}
static int parse_spec(const char *s)
{
  int i = 0, n;
  if (sscanf(s, "%d;%d;%d;%n", &nr, &wmode, &msgkind, &n) < 3) return 0;
  if (nr < 1 || nr > MAXR) return 0;
  s += n; np = nr + 5;
  while (i < np) {
    if (sscanf(s, "%d.%d.%d%n", &script[i].kind, &script[i].code, &script[i].form, &n) < 3) return 0;
    if (script[i].kind < 0 || script[i].kind >= K_NKINDS) return 0;
    s += n; i++;
    if (*s == ',') s++; else break;
  }
  return i == np;
}

int main(int argc, char **argv)
{
  int pk, c;
  if (argc < 3) return 2;
  nqv_init();
  setup_once();
  if (!strcmp(argv[1], "enum") && argc >= 9) {
    int fam = atoi(argv[2]);
    nr = atoi(argv[3]); wmode = atoi(argv[4]); msgkind = atoi(argv[5]);
    emit_every = atol(argv[8]);
    if (nr < 1 || nr > MAXR || fam < 1 || fam > 3) return 2;
    if (argc > 9) { emit = fopen(argv[9], "w"); if (!emit) return 2; }
    enumerate(fam, atoi(argv[6]), atoi(argv[7]) > 0 ? atoi(argv[7]) : 1, emit_every == 1);
  } else if (!strcmp(argv[1], "focus") && argc >= 4) {
    if (argc > 4) { emit = fopen(argv[4], "w"); if (!emit) return 2; }
    focus(atoi(argv[2]));
  } else if (!strcmp(argv[1], "rand") && argc >= 5) {
    emit_every = atol(argv[4]);
    if (argc > 5) { emit = fopen(argv[5], "w"); if (!emit) return 2; }
    randoms(atoll(argv[2]), strtoull(argv[3], 0, 10));
  } else if (!strcmp(argv[1], "one")) {
    if (!parse_spec(argv[2])) { fprintf(stderr, "bad spec\n"); return 2; }
    quitfail = getenv("NQV_C09_QUITFAIL") != 0;   /* not a phase of the property's quantifier: observation only */
    run_case();
    { size_t k, e = mkshow(); for (k = 0; k < e; k++) if (showbuf[k]) putc(showbuf[k], stderr); else fputs("\\0", stderr); putc('\n', stderr); }
    fprintf(stderr, "exited=%d code=%d lost=%d lost_at=%d dot_received=%d maxphase=%d reads=%ld writes=%ld\n", exited, exitcode, lost, lost_at,
            dot_received, maxphase, nreads, nwrites);
    cases++;
    judge(1);
  } else return 2;
  if (emit) fclose(emit);
  nqv_counter("cases", cases); nqv_counter("nontrivial", nontrivial); nqv_counter("distinct_nontrivial_inputs", nqv_dcount);
  nqv_counter("smtp_scripts", cases); nqv_counter("smtp_duplicate_runs_not_counted", dupruns);
  nqv_counter("smtp_fold_K", foldK); nqv_counter("smtp_fold_Z", foldZ); nqv_counter("smtp_fold_D", foldD);
  nqv_counter("smtp_fold_K_justified", kjust);
  nqv_counter("smtp_msgreport_K", msgK); nqv_counter("smtp_msgreport_Z", msgZ); nqv_counter("smtp_msgreport_D", msgD);
  nqv_counter("smtp_possible_duplicate_flagged", dupflag); nqv_counter("smtp_fewer_reports_than_recipients", fewer);
  nqv_counter("smtp_D_report_without_DATA", giveupD); nqv_counter("smtp_scripts_with_multiline_or_split_reply", multi_or_split);
  nqv_counter("smtp_unscripted_stalls", unscripted_stall); nqv_counter("smtp_odd_commands", odd_commands);
  nqv_counter("smtp_accepted_but_not_success", accepted_not_success);
  nqv_counter("smtp_records_emitted_for_model", emitted);
  for (pk = 0; pk < 6; pk++) for (c = 0; c < 8; c++) if (combo[pk][c]) {
    char nm[64]; snprintf(nm, sizeof nm, "pc_%s_%s", pkname[pk], clsname[c]); nqv_counter(nm, combo[pk][c]);
  }
  nqv_finish();
  return 0;
}
