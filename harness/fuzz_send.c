/* C20 target 9a: qmail-send on hostile delivery reports.  Real qmail-send.c del_dochan()
   (with logsafe, addbounce, stripvdomprepend, markdone, job_close behind it) and the tree's
   qsutil.c; read() on the spawner channel is the fuzz input, write()/log output a sink,
   bounce and mark files are /dev/null.  Every run starts from "all delivery slots busy".
   Input: <report bytes as qmail-lspawn/qmail-rspawn would send them> <selector byte>:
     bit 0 channel (local/remote), bit 1 the jobs are 'dying' (Z becomes D + text),
     bits 2-3 read chunking (2048 / 1 / 7 / 300). */
#include "fuzz_common.h"
#include "open.h"
#define _exit(x) fz_exit(x)
#define read fz_read
#define write fz_write
#define sleep(x) fz_exit(250)            /* "alert: ... sleeping" = out of memory or no bounce file: not reachable here */
#define open_append(fn) open("/dev/null", O_WRONLY)
#define open_write(fn) open("/dev/null", O_WRONLY)
#include "qsutil.c"
#define main nqv_send_main
#include "qmail-send.c"
#undef main
#undef _exit
#undef read
#undef write
#undef sleep

static const int allowed[] = { -1 };
static long reports_seen;

int LLVMFuzzerInitialize(int *argc, char ***argv)
{
  int c; unsigned int i;
  static const char *rc[5] = { "user@remote.test", "prep-user@vdom.test", "prep-u2@sub.wild.test", "odd\nname@remote.test", "nodomain" };
  (void) argc; (void) argv;
  fz_setup("send-reports");
  fz_extra_name[0] = "slots_released"; fz_extra_name[1] = "report_bytes";
  if (chdir(auto_qmail) == -1) { fprintf(stderr, "fuzz_send: NQV_HOME not usable\n"); exit(3); }
  if (!getcontrols()) { fprintf(stderr, "fuzz_send: getcontrols failed\n"); exit(3); }
  numjobs = 0; for (c = 0; c < CHANNELS; c++) numjobs += concurrency[c];
  fnmake_init();
  job_init();
  if (setjmp(fz_jb)) { fprintf(stderr, "fuzz_send: init exited\n"); exit(3); }
  del_init();
  for (c = 0; c < CHANNELS; c++)
    for (i = 0; i < concurrency[c]; i++) {
      d[c][i].recip.s = 0;
      if (!stralloc_copys(&d[c][i].recip, rc[i % 5]) || !stralloc_0(&d[c][i].recip)) abort();
    }
  return 0;
}

int LLVMFuzzerTestOneInput(const uint8_t *data, size_t size)
{
  unsigned sel = size ? data[size - 1] : 0;
  static const unsigned chunks[4] = { 0, 1, 7, 300 };
  int c = sel & 1, j; unsigned int i; volatile int exited = 0; long used0;
  if (size) size--;
  fz_in = data; fz_inlen = size; fz_inoff = 0; fz_chunk = chunks[(sel >> 2) & 3]; fz_endless = 0;
  for (j = 0; j < numjobs; j++) {
    jo[j].refs = 1 << 20; jo[j].id = 77 + j; jo[j].channel = c; jo[j].numtodo = 1 << 20;
    jo[j].flaghiteof = 0; jo[j].flagdying = (sel >> 1) & 1; jo[j].retry = 0;
  }
  for (i = 0; i < concurrency[c]; i++) { d[c][i].used = 1; d[c][i].j = (int) (i % (unsigned) numjobs); d[c][i].delid = 1000 + i; d[c][i].mpos = 0; }
  concurrencyused[c] = concurrency[c]; used0 = concurrencyused[c];
  FZ_FRESH(dline[c]); if (!stralloc_copys(&dline[c], "")) abort();       /* as del_init() leaves it */
  FZ_FRESH(foo); FZ_FRESH(bouncetext);
  flagexitasap = 0; flagspawnalive[c] = 1;
  if (!setjmp(fz_jb)) {
    while (fz_inoff < fz_inlen) del_dochan(c);
    del_dochan(c);                         /* end of stream: "lost spawn connection" */
  } else exited = 1;
  fz_extra[0] += used0 - (long) concurrencyused[c]; fz_extra[1] += (long) size;
  fz_outcome(exited, allowed, 1);
  fz_fd_sweep();
  return 0;
}
