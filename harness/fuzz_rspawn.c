/* C20 target 12a: qmail-rspawn's report() on hostile qmail-remote output.  Real qmail-rspawn.c
   (included; spawn.c's main loop is not linked).  report(ss, wstat, s, len) gets the output in an
   allocation of exactly len bytes: reading s[len] or beyond is reading outside the buffer it was given
   (in the daemon the bytes behind it are whatever the collecting stralloc holds).
   Input: <qmail-remote output bytes> <selector byte>: bits 0-2 child status
   (0-3 exit 0, 4 exit 111, 5 exit 100, 6 crashed, 7 exit 1). */
#include "fuzz_common.h"
#include "substdio.h"
uid_t auto_uidq;                          /* spawn.c's, which is not linked */
static char fz_ebuf[256];
static substdio fz_sse = SUBSTDIO_FDBUF(fz_write, 2, fz_ebuf, sizeof fz_ebuf);
substdio *subfderr = &fz_sse;
#define _exit(x) fz_exit(x)
#include "qmail-rspawn.c"
#undef _exit

static char obuf[1024];

int LLVMFuzzerInitialize(int *argc, char ***argv)
{
  (void) argc; (void) argv;
  fz_setup("rspawn-report");
  fz_extra_name[0] = "reports_K"; fz_extra_name[1] = "reports_Z"; fz_extra_name[2] = "reports_D";
  return 0;
}

int LLVMFuzzerTestOneInput(const uint8_t *data, size_t size)
{
  static const int ws[8] = { 0, 0, 0, 0, 111 << 8, 100 << 8, 11, 1 << 8 };
  unsigned sel = size ? data[size - 1] : 0; char *s; substdio ss;
  if (size) size--;
  s = malloc(size ? size : 1);
  if (!s) abort();
  memcpy(s, data, size);
  substdio_fdbuf(&ss, fz_write, -1, obuf, sizeof obuf);
  report(&ss, ws[sel & 7], s, (int) size);
  if (ss.p > 0) { char c = obuf[0]; fz_extra[c == 'K' ? 0 : c == 'Z' ? 1 : 2]++; }
  substdio_flush(&ss);
  free(s);
  fz_runs++; fz_exits[256]++;
  return 0;
}
