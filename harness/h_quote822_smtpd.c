/* Second translation unit of the C17 harness: the real qmail-smtpd.c (main renamed).  It is
   compiled to an object whose global symbols are all made local (objcopy -G) except the one
   entry point below, because qmail-smtpd.c and qmail-remote.c define clashing globals. */
#define main nqv_smtpd_main
#include "qmail-smtpd.c"
#undef main

/* addrparse() on the argument of a MAIL/RCPT command; the parsed address is left in the
   server's global `addr` (0-terminated when addrparse returns 1) */
int nqv_smtpd_addrparse(char *arg, char **out, unsigned int *outlen)
{
  int r = addrparse(arg);
  *out = addr.s;
  *outlen = addr.len;
  return r;
}
