/* C20 target 11: cdb_seek (+ cdb_bread of the value, as the callers do) on corrupt constant
   databases.  Real cdb.a of the tree; the file is a memfd.
   Length monitor: the callers read the value with cdb_bread(fd, buf, dlen) where dlen is the 32-bit
   length found in the file.  The harness does the same into a 4 GB no-reserve mapping and requires that
   "success" means dlen bytes were consumed (file offset advanced by dlen); a length that overflowed
   on the way in (e.g. became negative) shows up as success without reading.
   Input: nkeys(1) { keylen(1) key }*nkeys  <cdb file bytes>.  Keys of the seed corpus are the
   keys really present in the seed databases, so that hits survive light corruption. */
#define _GNU_SOURCE
#include <sys/mman.h>
#include "fuzz_common.h"
#include "cdb.h"

static int mfd = -1;
static char *bigbuf;
static long seeks, found, notfound, errors, values_read;
static void report_cdb(void) { fprintf(stderr, "NQVSTAT-CDB seeks=%ld found=%ld notfound=%ld errors=%ld values_read=%ld\n", seeks, found, notfound, errors, values_read); }

int LLVMFuzzerInitialize(int *argc, char ***argv)
{
  (void) argc; (void) argv;
  fz_setup("cdb");
  mfd = memfd_create("nqv-cdb", 0);
  if (mfd < 0) { perror("memfd_create"); exit(3); }
  bigbuf = mmap(0, (1ULL << 32) + 4096, PROT_READ | PROT_WRITE, MAP_PRIVATE | MAP_ANONYMOUS | MAP_NORESERVE, -1, 0);
  if (bigbuf == MAP_FAILED) { perror("mmap"); exit(3); }
  atexit(report_cdb);
  return 0;
}

int LLVMFuzzerTestOneInput(const uint8_t *data, size_t size)
{
  const unsigned char *keys[8]; unsigned klen[8]; unsigned nk, i; size_t off = 1;
  if (size < 1) return 0;
  nk = data[0] & 7;
  for (i = 0; i < nk; i++) {
    if (off >= size) { nk = i; break; }
    klen[i] = data[off++]; if (klen[i] > size - off) klen[i] = (unsigned) (size - off);
    keys[i] = data + off; off += klen[i];
  }
  if (ftruncate(mfd, 0) == -1 || pwrite(mfd, data + off, size - off, 0) != (ssize_t) (size - off)) { perror("memfd write"); exit(3); }
  for (i = 0; i < nk; i++) {
    /* the key lives in an allocation of exactly its own size: reading past the key is reading past a buffer */
    uint32 dlen = 0; int r; char *k = malloc(klen[i] ? klen[i] : 1);
    if (!k) abort();
    memcpy(k, keys[i], klen[i]);
    r = cdb_seek(mfd, k, klen[i], &dlen);
    free(k);
    seeks++;
    if (r == 1) {
      off_t p0 = lseek(mfd, 0, SEEK_CUR), p1;
      found++;
      if (cdb_bread(mfd, bigbuf, dlen) == 0) {
        p1 = lseek(mfd, 0, SEEK_CUR);
        if (p1 - p0 != (off_t) dlen) {
          fprintf(stderr, "NQV-VIOLATION length/cdb_bread/success-without-reading dlen=%u consumed=%lld\n", (unsigned) dlen, (long long) (p1 - p0));
          abort();
        }
        values_read++; fz_write(-1, bigbuf, dlen > 4096 ? 4096 : dlen);
      }
    } else if (r == 0) notfound++; else errors++;
  }
  fz_runs++; fz_exits[256]++;
  return 0;
}
