/* C20 target 11: cdb_seek (+ cdb_bread of the value, as the callers do) on corrupt constant
   databases.  Real cdb.a of the tree; the file is a memfd.
   Input: nkeys(1) { keylen(1) key }*nkeys  <cdb file bytes>.  Keys of the seed corpus are the
   keys really present in the seed databases, so that hits survive light corruption. */
#define _GNU_SOURCE
#include <sys/mman.h>
#include "fuzz_common.h"
#include "cdb.h"

static int mfd = -1;
static long seeks, found, notfound, errors, values_read;
static void report_cdb(void) { fprintf(stderr, "NQVSTAT-CDB seeks=%ld found=%ld notfound=%ld errors=%ld values_read=%ld\n", seeks, found, notfound, errors, values_read); }

int LLVMFuzzerInitialize(int *argc, char ***argv)
{
  (void) argc; (void) argv;
  fz_setup("cdb");
  mfd = memfd_create("nqv-cdb", 0);
  if (mfd < 0) { perror("memfd_create"); exit(3); }
  atexit(report_cdb);
  return 0;
}

int LLVMFuzzerTestOneInput(const uint8_t *data, size_t size)
{
  const unsigned char *keys[8]; unsigned klen[8]; unsigned nk, i; size_t off = 1;
  static char val[4096];
  if (size < 1) return 0;
  nk = data[0] & 7;
  for (i = 0; i < nk; i++) {
    if (off >= size) { nk = i; break; }
    klen[i] = data[off++]; if (klen[i] > size - off) klen[i] = (unsigned) (size - off);
    keys[i] = data + off; off += klen[i];
  }
  if (ftruncate(mfd, 0) == -1 || pwrite(mfd, data + off, size - off, 0) != (ssize_t) (size - off)) { perror("memfd write"); exit(3); }
  for (i = 0; i < nk; i++) {
    /* the key lives in an allocation of exactly its own size: reading past the key is reading past a buffer */
    uint32 dlen = 0; int r; char *k = malloc(klen[i] ? klen[i] : 1);
    if (!k) abort();
    memcpy(k, keys[i], klen[i]);
    r = cdb_seek(mfd, k, klen[i], &dlen);
    free(k);
    seeks++;
    if (r == 1) {
      unsigned n = dlen > sizeof val ? (unsigned) sizeof val : dlen;
      found++;
      if (cdb_bread(mfd, val, (int) n) == 0) { values_read++; fz_write(-1, val, n); }
    } else if (r == 0) notfound++; else errors++;
  }
  fz_runs++; fz_exits[256]++;
  return 0;
}
