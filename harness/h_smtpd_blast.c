/* C05 monitor: the real qmail-smtpd.c blast() run in-process; timeoutread is a chunk
   script, qmail_put a capture buffer.  Every stream is judged against the RFC 5321 4.5.2
   reference decoder of smtpcodec.h.
   usage: h_smtpd_blast enum <L> <lo> <hi>        strings of length L over {CR,LF,'.','a','R'}
          h_smtpd_blast rand <n> <seed> <maxlen>
          h_smtpd_blast xcheck <file>             (input,payload) records from h_remote_blast:
                                                  decode(payload) by the real server vs graded C06 rule */
#include <unistd.h>
#include <setjmp.h>
#include "nqvh.h"
#include "smtpcodec.h"

static jmp_buf jb; static int exitcode = -1;
static void nqv_exit(int c) __attribute__((noreturn));
static void nqv_exit(int c) { exitcode = c; longjmp(jb, 1); }
#define _exit(x) nqv_exit(x)
#define main nqv_smtpd_main
#include "qmail-smtpd.c"
#undef main
#undef _exit

#define MAXIN (1 << 17)
static const unsigned char *in; static size_t inlen, inoff; static int chunkmode; static unsigned splitmask;
static unsigned char cap[MAXIN * 3 + 64]; static size_t caplen;
static unsigned char outc[4096]; static size_t outclen; static int failed;
static unsigned char dec[MAXIN * 3 + 64], dec2[MAXIN * 3 + 64], t1[MAXIN * 3 + 64], t2[MAXIN * 3 + 64];

ssize_t timeoutread(int t, int fd, char *b, size_t n)
{
  size_t k = inlen - inoff;
  if (!k) return 0;
  if (n < k) k = n;
  if (chunkmode == 1) k = 1;
  else if (chunkmode == 2) { size_t j = 1; while (j < k && !((inoff + j - 1 < 32) && (splitmask >> (inoff + j - 1) & 1))) j++; k = j; }
  else if (chunkmode == 3) { size_t r = 1 + nqv_rand() % 1500; if (r < k) k = r; }
  memcpy(b, in + inoff, k); inoff += k; return k;
}
ssize_t timeoutwrite(int t, int fd, const void *b, size_t n)
{
  if (outclen + n < sizeof outc) { memcpy(outc + outclen, b, n); outclen += n; }
  return n;
}
int qmail_open(struct qmail *q) { return 0; }
void qmail_put(struct qmail *q, const char *s, size_t n)
{
  if (caplen + n > sizeof cap) abort();
  memcpy(cap + caplen, s, n); caplen += n;
}
void qmail_fail(struct qmail *q) { failed = 1; }
void qmail_from(struct qmail *q, const char *s) {}
void qmail_to(struct qmail *q, const char *s) {}
char *qmail_close(struct qmail *q) { return ""; }
unsigned long qmail_qp(struct qmail *q) { return 1; }

static long long cases, acc, rej, eofs, nontrivial, ambiguous, xchecked;

static const char *inclass(void)
{
  size_t k;
  for (k = 0; k < inlen; k++) if (in[k] == '\n' && !(k && in[k - 1] == '\r')) return "bare-lf";
  for (k = 0; k + 1 < inlen; k++) if (in[k] == '\r' && in[k + 1] != '\n') return "bare-cr";
  for (k = 0; k < inlen; k++) if (in[k] == '.' && (k == 0 || in[k - 1] == '\n')) return "leading-dot";
  return "plain";
}
static void viol(const char *rule)
{
  char key[96];
  snprintf(key, sizeof key, "C05/%s/%s", rule, inclass());
  nqv_violation(key, rule, in, inlen, cap, caplen);
}

/* run the real decoder on in[0..n); returns 1 if blast returned */
static int run_real(const unsigned char *s, size_t n, int mode, unsigned mask)
{
  int hops, returned = 0;
  in = s; inlen = n; inoff = 0; chunkmode = mode; splitmask = mask;
  caplen = 0; outclen = 0; failed = 0; exitcode = -1;
  ssin.p = 0; ssin.n = sizeof ssinbuf; ssout.p = 0; bytestooverflow = 0;
  if (!setjmp(jb)) { blast(&hops); returned = 1; }
  return returned;
}

static void one(const unsigned char *s, size_t n, int mode, unsigned mask)
{
  size_t dl = 0, cons = 0, dl2 = 0, cons2 = 0, i; int r, amb = 0, returned;
  returned = run_real(s, n, mode, mask);
  cases++;
  for (i = 0; i < n; i++) if (s[i] == '\r' || s[i] == '\n' || s[i] == '.') { nontrivial++; nqv_distinct(s, n); break; }
  r = ref_decode(s, n, dec, &dl, &cons, 0, &amb);
  if (r == 1) {
    size_t used = inoff - ssin.p;
    acc++;
    if (!returned) { viol("terminated-stream-not-accepted"); return; }
    if (used != cons) { viol(used < cons ? "message-ended-early" : "terminator-missed"); return; }
    if (caplen != dl || memcmp(cap, dec, dl)) {
      if (amb) {
        ref_decode(s, n, dec2, &dl2, &cons2, 1, 0);
        if (caplen == dl2 && !memcmp(cap, dec2, dl2)) { ambiguous++; return; }
      }
      viol("decoded-bytes-differ"); return;
    }
  } else if (r == 0) {
    rej++;
    if (returned) { viol("bare-lf-accepted"); return; }
    if (outclen < 3 || memcmp(outc, "451", 3)) { viol("bare-lf-not-451"); return; }
  } else {
    eofs++;
    if (returned) { viol("accepted-without-terminator"); return; }
    if (outclen >= 3 && !memcmp(outc, "250", 3)) { viol("accepted-without-terminator"); return; }
  }
}

static void xcheck(const char *file)
{
  FILE *f = fopen(file, "rb"); unsigned int a, b;
  static unsigned char msg[MAXIN], pay[MAXIN * 3 + 64];
  if (!f) exit(2);
  while (fread(&a, 4, 1, f) == 1) {
    const char *g; size_t used;
    if (a > sizeof msg || fread(msg, 1, a, f) != a) exit(2);
    if (fread(&b, 4, 1, f) != 1 || b > sizeof pay || fread(pay, 1, b, f) != b) exit(2);
    xchecked++;
    if (!run_real(pay, b, 0, 0)) { in = msg; inlen = a; viol("own-server-refuses-own-client-payload"); continue; }
    used = inoff - ssin.p;
    in = msg; inlen = a;
    if (used != b) { viol("own-server-ends-own-client-payload-early"); continue; }
    g = c06_grade(msg, a, cap, caplen, t1, t2);
    if (g) { char rule[80]; snprintf(rule, sizeof rule, "own-server-%s", g); viol(rule); }
  }
  fclose(f);
}

int main(int argc, char **argv)
{
  static unsigned char s[MAXIN + 32];
  static const unsigned char al[5] = { '\r', '\n', '.', 'a', 'R' };
  static const char term[] = "\r\n.\r\nNOOP\r\n";
  if (argc < 3) return 2;
  nqv_init();
  if (!strcmp(argv[1], "xcheck")) {
    xcheck(argv[2]);
  } else if (!strcmp(argv[1], "enum") && argc >= 5) {
    int L = atoi(argv[2]); long long lo = atoll(argv[3]), hi = atoll(argv[4]), k;
    for (k = lo; k < hi; k++) {
      long long x = k; int i; unsigned m; size_t tl = sizeof term - 1;
      for (i = 0; i < L; i++) { s[i] = al[x % 5]; x /= 5; }
      memcpy(s + L, term, tl);
      nqv_sample(s, L, (hi - lo) / 6 + 1);
      one(s, L + tl, 0, 0);
      one(s, L + tl, 1, 0);
      if (L >= 2 && L <= 6) for (m = 1; m < (1u << (L + 4)); m += (L <= 4 ? 1 : 5)) one(s, L + tl, 2, m);
      one(s, L, 0, 0);            /* no terminator: EOF */
      memcpy(s + L, ".\r\n", 3); /* terminator directly after the string (valid only after CR LF) */
      one(s, L + 3, 0, 0);
    }
  } else if (!strcmp(argv[1], "rand") && argc >= 5) {
    long long n = atoll(argv[2]), k; size_t maxlen = atol(argv[4]);
    static const char *words[] = { "received", "RECEIVED", "Delivered", "\r\n", "\r\n.", "\r\n..", ".\r", "\r\r\n", ".\r\n", "\r\n.\r" };
    nqv_srand(strtoull(argv[3], 0, 10));
    if (maxlen > MAXIN - 64) maxlen = MAXIN - 64;
    for (k = 0; k < n; k++) {
      size_t len, i = 0; unsigned cls = nqv_rand() % 4, w = nqv_rand() % 3;
      if (cls == 0) len = nqv_rand() % 40;
      else if (cls == 1) len = 1000 + nqv_rand() % 60;
      else if (cls == 2) len = 2030 + nqv_rand() % 40;
      else len = nqv_rand() % (maxlen + 1);
      while (i < len) {
        unsigned r = nqv_rand() % 100;
        if (r < 12) { const char *wd = words[nqv_rand() % 10]; size_t wl = strlen(wd); if (i + wl <= len) { memcpy(s + i, wd, wl); i += wl; continue; } }
        if (w == 0) s[i++] = al[nqv_rand() % 5];
        else if (w == 1) s[i++] = r < 20 ? '\r' : r < 23 ? '\n' : r < 35 ? '.' : (unsigned char) (nqv_rand() & 0xff);
        else s[i++] = r < 15 ? '\r' : r < 16 ? '\n' : r < 22 ? '.' : 'a' + r % 26;
      }
      if (w == 2) { /* make most of these conforming: every LF preceded by CR */
        for (i = 0; i < len; i++) if (s[i] == '\n' && !(i && s[i - 1] == '\r')) s[i] = 'n';
      }
      if (nqv_rand() % 8) { memcpy(s + len, term, sizeof term - 1); len += sizeof term - 1; }
      one(s, len, (nqv_rand() & 1) ? 3 : 0, 0);
      if (len < 48) nqv_sample(s, len, n / 6 + 1);
    }
  } else return 2;
  nqv_counter("cases", cases); nqv_counter("nontrivial", nontrivial); nqv_counter("distinct_nontrivial_inputs", nqv_dcount);
  nqv_counter("accepted_streams", acc); nqv_counter("bare_lf_rejected", rej); nqv_counter("eof_streams", eofs);
  nqv_counter("ambiguous_dot_cr_family_accepted_either_way", ambiguous);
  nqv_counter("xchecked_payloads", xchecked);
  nqv_finish();
  return 0;
}
