/* C20 target 4b: qmail-popup command stream.  Real qmail-popup.c from main(); timeoutread is
   the fuzz input, timeoutwrite a sink; fork()/pipe()/wait_pid() are answered by the harness
   (parent side only: the credentials are written to a sink, the child's status comes from the
   selector).  Input: <stream> <selector byte>: bits 0-1 chunking, bits 2-3 child outcome
   (exit 0 / exit 1 / crashed / wait fails). */
#include "fuzz_common.h"
#include "sig.h"
#include "wait.h"
#define _exit(x) fz_exit(x)
#define fork() 4242
#define pipe(p) ((p)[0] = 3, (p)[1] = 1000, 0)
#define close(fd) 0
#define write fz_write
#define wait_pid fz_wait_pid
#define sig_alarmcatch(f) ((void) 0)      /* SIGALRM belongs to libFuzzer's -timeout */
static int fz_child;
static int fz_wait_pid(int *wstat, int pid) { (void) pid; if (fz_child == 3) return -1; *wstat = fz_child == 0 ? 0 : fz_child == 1 ? (1 << 8) : 11; return 4242; }
#define puts nqv_prog_puts           /* the program has its own puts(); stdio.h is already in */
#define main nqv_popup_main
#include "qmail-popup.c"
#include "commands.c"                   /* the tree's command reader, included to reach its static line buffer */
#undef main
#undef puts
#undef _exit
#undef write
#undef close

ssize_t timeoutread(int t, int fd, char *b, size_t n) { (void) t; return fz_read(fd, b, n); }
ssize_t timeoutwrite(int t, int fd, const void *b, size_t n) { (void) t; return fz_write(fd, b, n); }

static const int allowed[] = { 0, 1, -1 };
static char *args[4] = { (char *) "qmail-popup", (char *) "pop.host.test", (char *) "/bin/true", 0 };

int LLVMFuzzerInitialize(int *argc, char ***argv)
{
  (void) argc; (void) argv;
  fz_setup("popup");
  return 0;
}

int LLVMFuzzerTestOneInput(const uint8_t *data, size_t size)
{
  unsigned sel = size ? data[size - 1] : 0;
  static const unsigned chunks[4] = { 0, 1, 7, 200 };
  volatile int exited = 0;
  if (size) size--;
  fz_in = data; fz_inlen = size; fz_inoff = 0; fz_chunk = chunks[sel & 3]; fz_endless = 0;
  fz_child = (sel >> 2) & 3;
  ssin.p = 0; ssin.n = sizeof ssinbuf; ssout.p = 0; seenuser = 0;
  FZ_FRESH(username); FZ_FRESH(cmd);
  if (!setjmp(fz_jb)) nqv_popup_main(3, args); else exited = 1;
  fz_outcome(exited, allowed, 0);
  return 0;
}
