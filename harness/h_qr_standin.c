/* C09 monitor (c), whole-binary part: stand-in for qmail-remote run by the real qmail-rspawn
   through $QMAILREMOTE.  argv = host sender recipient; the recipient's local part "c<N>"
   names the case: the bytes of $NQV_C09_DIR/<N>.out are written to descriptor 1 (NULs and
   all), then the process ends as $NQV_C09_DIR/<N>.st says: "e<code>" exit, "s<sig>" die by
   that signal.  Built without sanitizers (it must be able to die by SIGSEGV quietly). */
#include <fcntl.h>
#include <signal.h>
#include <stdio.h>
#include <stdlib.h>
#include <string.h>
#include <sys/resource.h>
#include <unistd.h>

int main(int argc, char **argv)
{
  const char *d = getenv("NQV_C09_DIR"); char fn[4200], st[32], buf[65536]; int fd, n, k; long id;
  if (!d || argc < 4 || argv[3][0] != 'c') _exit(97);
  id = atol(argv[3] + 1);
  snprintf(fn, sizeof fn, "%s/%ld.out", d, id);
  fd = open(fn, O_RDONLY);
  if (fd < 0) _exit(97);
  while ((n = read(fd, buf, sizeof buf)) > 0) {
    int off = 0;
    while (off < n) { k = write(1, buf + off, n - off); if (k <= 0) _exit(97); off += k; }
  }
  close(fd);
  snprintf(fn, sizeof fn, "%s/%ld.st", d, id);
  fd = open(fn, O_RDONLY);
  if (fd < 0) _exit(97);
  n = read(fd, st, sizeof st - 1);
  if (n <= 0) _exit(97);
  st[n] = 0;
  if (st[0] == 's') {
    struct rlimit rl = { 0, 0 };
    int sig = atoi(st + 1);
    setrlimit(RLIMIT_CORE, &rl);
    signal(sig, SIG_DFL);
    kill(getpid(), sig);
    pause();
    _exit(97);
  }
  _exit(atoi(st + 1));
}
