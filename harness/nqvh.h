/* Shared helpers for in-process harnesses (DESIGN.md 2.7).
   Output protocol on stdout, one record per line:
     V <key> <why> <hex in> <hex out>     a violation witness (first NQV_VCAP per key)
     K <key> <count>                      total violations per key (at end)
     X <hex>                              a sample case
     S <name> <integer>                   a counter (at end)
*/
#ifndef NQVH_H
#define NQVH_H
#include <stdio.h>
#include <stdlib.h>
#include <string.h>
#include <stdint.h>
#include <unistd.h>
#include <fcntl.h>

/* The harness protocol is written to a private copy of stdout; descriptor 1 itself is
   pointed at /dev/null because the included program writes its own reports there. */
static FILE *nqv_o;
static void nqv_init(void)
{
  int n;
  if (nqv_o) return;
  nqv_o = fdopen(dup(1), "w");
  n = open("/dev/null", O_WRONLY);
  if (n >= 0) { dup2(n, 1); if (n != 1) close(n); }
}

#define NQV_VCAP 4
#define NQV_MAXKEYS 128

static struct { char key[96]; long n; } nqv_keys[NQV_MAXKEYS];
static int nqv_nkeys;
static long nqv_samples;

static void nqv_hex(const unsigned char *s, size_t n)
{
  static const char h[] = "0123456789abcdef";
  size_t i;
  nqv_init();
  if (!n) { fputs("-", nqv_o); return; }
  if (n > 3000) n = 3000;       /* long random cases are replayed from the harness arguments */
  for (i = 0; i < n; i++) { putc(h[s[i] >> 4], nqv_o); putc(h[s[i] & 15], nqv_o); }
}

static void nqv_violation(const char *key, const char *why,
                          const unsigned char *in, size_t inlen,
                          const unsigned char *out, size_t outlen)
{
  int i;
  for (i = 0; i < nqv_nkeys; i++) if (!strcmp(nqv_keys[i].key, key)) break;
  if (i == nqv_nkeys) {
    if (nqv_nkeys == NQV_MAXKEYS) return;
    strncpy(nqv_keys[i].key, key, sizeof nqv_keys[i].key - 1);
    nqv_nkeys++;
  }
  if (nqv_keys[i].n++ < NQV_VCAP) {
    nqv_init();
    fprintf(nqv_o, "V %s %s ", key, why);
    nqv_hex(in, inlen); putc(' ', nqv_o);
    nqv_hex(out, outlen); putc('\n', nqv_o);
  }
}

static void nqv_sample(const unsigned char *in, size_t inlen, long every)
{
  if ((nqv_samples++ % every) == 0 && nqv_samples / every < 8) {
    nqv_init();
    fputs("X ", nqv_o); nqv_hex(in, inlen); putc('\n', nqv_o);
  }
}

static void nqv_counter(const char *name, long long v) { nqv_init(); fprintf(nqv_o, "S %s %lld\n", name, v); }

static void nqv_finish(void)
{
  int i;
  nqv_init();
  for (i = 0; i < nqv_nkeys; i++) fprintf(nqv_o, "K %s %ld\n", nqv_keys[i].key, nqv_keys[i].n);
  fflush(nqv_o);
}

/* xorshift PRNG, seeded by the caller */
static uint64_t nqv_rs = 88172645463325252ULL;
static uint64_t nqv_rand(void)
{
  nqv_rs ^= nqv_rs << 13; nqv_rs ^= nqv_rs >> 7; nqv_rs ^= nqv_rs << 17; return nqv_rs;
}
static void nqv_srand(uint64_t s) { nqv_rs = s * 0x9E3779B97F4A7C15ULL + 0x1234567ULL; if (!nqv_rs) nqv_rs = 1; nqv_rand(); nqv_rand(); }

/* FNV-1a for distinct counting */
static uint64_t nqv_fnv(const unsigned char *s, size_t n)
{
  uint64_t h = 1469598103934665603ULL; size_t i;
  for (i = 0; i < n; i++) { h ^= s[i]; h *= 1099511628211ULL; }
  return h;
}

/* distinct counting: open-addressing set of 64-bit hashes; saturates (conservatively
   stops counting) when three quarters full */
#define NQV_DBITS 21
static uint64_t *nqv_dtab; static long long nqv_dcount;
static void nqv_distinct_h(uint64_t h)
{
  uint64_t m = (1ULL << NQV_DBITS) - 1, i;
  if (!nqv_dtab) nqv_dtab = calloc(1ULL << NQV_DBITS, sizeof(uint64_t));
  if (!nqv_dtab || nqv_dcount > (long long) (3 * (m + 1) / 4)) return;
  if (!h) h = 1;
  for (i = h & m;; i = (i + 1) & m) {
    if (nqv_dtab[i] == h) return;
    if (!nqv_dtab[i]) { nqv_dtab[i] = h; nqv_dcount++; return; }
  }
}
static void nqv_distinct(const unsigned char *s, size_t n) { nqv_distinct_h(nqv_fnv(s, n)); }
#endif
