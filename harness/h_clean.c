/* C18 monitor (qmail-clean part): the real qmail-clean.c run in-process on enumerated and random
   request streams.  unlink/chdir/opendir/_exit are intercepted; descriptor 0 and 1 of the program
   are replaced by memory (the substdio objects subfdinsmall/subfdoutsmall are re-pointed), and the
   read function hands the program at most one request per call, so every response byte and every
   unlink is attributed to exactly one request.

   usage: h_clean enum <quick|thorough> <part> <nparts>
          h_clean digits
          h_clean rand <n> <seed>

   Oracle (properties.jsonl C18, DESIGN.md section 3 C18), for a request r = bytes up to the NUL:
     * exactly one response byte;
     * r outside ^(foop|todo)/[0-9]+$ or with total length (incl. NUL) outside 7..100: 'x', no unlink;
     * r valid, naming N: either every unlink is of exactly intd/N then mess/(N mod split)/N (foop)
       or intd/N then todo/N (todo), N written canonically in decimal, answered '+', or '!' right
       after an unlink that failed with an error other than ENOENT; a request whose N >= 10^19 may
       also be refused ('x', no unlink).  N is the number *mathematically*: a wrapped number is a
       different path and therefore a violation. */
#include <unistd.h>
#include <setjmp.h>
#include <errno.h>
#include <dirent.h>
#include <sys/types.h>
#include <sys/stat.h>
#include "nqvh.h"

static jmp_buf jb; static int exited, exitcode;
static void nqv_exit(int c) __attribute__((noreturn));
static void nqv_exit(int c) { exited = 1; exitcode = c; longjmp(jb, 1); }
static int nqv_unlink(const char *p);
static int nqv_chdir(const char *p) { (void) p; return 0; }
#define _exit(x) nqv_exit(x)
#define unlink(x) nqv_unlink(x)
#define chdir(x) nqv_chdir(x)
#define opendir(x) ((DIR *) 0)
#define main nqv_clean_main
#include "qmail-clean.c"
#undef main
#undef opendir
#undef chdir
#undef unlink
#undef _exit
#include "auto_split.h"

/* ---- the stream and the per-request observation window ------------------------------------- */
#define MAXSTREAM (1 << 22)
static unsigned char *stream; static size_t slen, spos;
static size_t reqstart;              /* start of the request being handed over */
static int chunkmode;                /* 0: one request per read, 1: random pieces inside a request */

static int active;                   /* a request has been handed over completely and is being processed */
static size_t act_off, act_len;      /* its bytes (without NUL) */
static unsigned char resp[16]; static int nresp;
static char unl[8][64]; static int unlres[8]; static int nunl;
static int failplan;                 /* 0 none; 1/2: k-th unlink ENOENT; 3/4: k-th unlink hard error */
static long long cases, nvalid, nrefusable, ninvalid, nacted, nbang, orphan_events;
static long long cls_count[8];

static void judge(void);

static int nqv_unlink(const char *p)
{
  int k = nunl, r = 0;
  if (!active) { orphan_events++; return 0; }
  if (nunl < 8) { strncpy(unl[nunl], p, 63); unl[nunl][63] = 0; }
  if (failplan == 1 && k == 0) { errno = ENOENT; r = -1; }
  if (failplan == 2 && k == 1) { errno = ENOENT; r = -1; }
  if (failplan == 3 && k == 0) { errno = EACCES; r = -1; }
  if (failplan == 4 && k == 1) { errno = EIO; r = -1; }
  if (nunl < 8) unlres[nunl] = r ? errno : 0;
  nunl++;
  return r;
}

static ssize_t rd(int fd, void *buf, size_t n)
{
  size_t k, end; int hasnul;
  (void) fd;
  if (substdio_flush(subfdoutsmall) == -1) return -1;   /* as subfd_readsmall does */
  if (active) { judge(); active = 0; }
  if (spos >= slen) return 0;
  for (end = spos; end < slen && stream[end]; end++) ;
  hasnul = end < slen;
  if (hasnul) end++;                                     /* hand over the NUL too, but nothing beyond it */
  k = end - spos;
  if (k > n) k = n;
  if (chunkmode && k > 1) { size_t r = 1 + nqv_rand() % k; if (r < k) k = r; }
  memcpy(buf, stream + spos, k);
  spos += k;
  if (hasnul && spos == end) {                           /* request complete: open its observation window */
    uint64_t h;
    active = 1; act_off = reqstart; act_len = end - 1 - reqstart; reqstart = end;
    nresp = 0; nunl = 0; failplan = 0;
    h = nqv_fnv(stream + act_off, act_len) ^ (uint64_t) cases;
    if (h % 7 == 0) failplan = 1 + (h / 7) % 4;
  }
  return k;
}

static ssize_t wr(int fd, const void *buf, size_t n)
{
  size_t i;
  (void) fd;
  if (!active) { orphan_events += n; return n; }
  for (i = 0; i < n; i++) { if (nresp < 16) resp[nresp] = ((const unsigned char *) buf)[i]; nresp++; }
  return n;
}

/* ---- decimal arithmetic on the request's digit string ---------------------------------------- */
static int cmpdec(const unsigned char *d, size_t n, const char *lim)   /* d canonical (no leading zeros) */
{
  size_t l = strlen(lim);
  if (n != l) return n < l ? -1 : 1;
  return memcmp(d, lim, n);
}
static unsigned moddec(const unsigned char *d, size_t n, unsigned m)
{
  unsigned long long r = 0; size_t i;
  for (i = 0; i < n; i++) r = (r * 10 + (d[i] - '0')) % m;
  return (unsigned) r;
}

enum { CL_LENGTH, CL_KEYWORD, CL_NONDIGIT, CL_VALID, CL_REFUSABLE, CL_OVERFLOW };
static const char *clsname[] = { "length", "keyword", "nondigit", "valid", "valid-ge-1e19", "overflow" };

static void observed(char *o, size_t on)
{
  int i; size_t k = 0;
  k += snprintf(o + k, on - k, "resp=");
  for (i = 0; i < nresp && i < 16 && k + 8 < on; i++) k += snprintf(o + k, on - k, "%c", resp[i] >= 33 && resp[i] < 127 ? resp[i] : '?');
  for (i = 0; i < nunl && i < 8 && k + 80 < on; i++) k += snprintf(o + k, on - k, " unlink(%s)=%d", unl[i], unlres[i]);
}

static void viol(const char *key, const char *why)
{
  char o[800];
  observed(o, sizeof o);
  nqv_violation(key, why, stream + act_off, act_len, (unsigned char *) o, strlen(o));
}

static void judge(void)
{
  const unsigned char *r = stream + act_off; size_t n = act_len, i, nd; int cls, todo = 0;
  const unsigned char *dg; char key[96], e1[64], e2[64];
  cases++;
  /* classify by the documented grammar */
  if (n + 1 < 7 || n + 1 > 100) cls = CL_LENGTH;
  else if (memcmp(r, "foop/", 5) && memcmp(r, "todo/", 5)) cls = CL_KEYWORD;
  else {
    cls = CL_VALID;
    for (i = 5; i < n; i++) if (r[i] < '0' || r[i] > '9') { cls = CL_NONDIGIT; break; }
  }
  dg = r + 5; nd = n >= 5 ? n - 5 : 0;
  if (cls == CL_VALID) {
    todo = !memcmp(r, "todo/", 5);
    while (nd > 1 && *dg == '0') { dg++; nd--; }
    if (cmpdec(dg, nd, "18446744073709551616") >= 0) cls = CL_OVERFLOW;
    else if (cmpdec(dg, nd, "10000000000000000000") >= 0) cls = CL_REFUSABLE;
  }
  cls_count[cls]++;
  if (cls >= CL_VALID || (cls == CL_NONDIGIT) || (cls == CL_KEYWORD && n > 5)) nqv_distinct(r, n);

  if (nresp != 1) {
    snprintf(key, sizeof key, "C18/clean/status-bytes!=1/%s", clsname[cls]);
    viol(key, "request-not-answered-by-exactly-one-status-byte");
    return;
  }
  if (cls < CL_VALID) {
    ninvalid++;
    if (nunl) {
      if (cls == CL_KEYWORD) {
        const char *sub = "other";
        if (n >= 5 && !memcmp(r, "todo", 4)) sub = "todoX";
        else if (n >= 5 && !memcmp(r, "foop", 4)) sub = "foopX";
        snprintf(key, sizeof key, "C18/clean/rejected-keyword-acted/%s", sub);
      } else snprintf(key, sizeof key, "C18/clean/rejected-%s-acted", clsname[cls]);
      viol(key, "unlink-for-a-request-outside-the-grammar");
    } else if (resp[0] != 'x') {
      snprintf(key, sizeof key, "C18/clean/rejected-not-x/%s", clsname[cls]);
      viol(key, "request-outside-the-grammar-not-answered-x");
    }
    return;
  }
  /* valid request naming the number dg[0..nd) */
  snprintf(e1, sizeof e1, "intd/%.*s", (int) nd, dg);
  if (todo) snprintf(e2, sizeof e2, "todo/%.*s", (int) nd, dg);
  else snprintf(e2, sizeof e2, "mess/%u/%.*s", moddec(dg, nd, (unsigned) auto_split), (int) nd, dg);
  if (resp[0] == 'x' && !nunl && cls != CL_VALID) { nrefusable++; return; }   /* >= 10^19 may be refused */
  {
    int ok = 1, hard = -1;
    if (nunl > 2) ok = 0;
    if (nunl >= 1 && strcmp(unl[0], e1)) ok = 0;
    if (nunl >= 2 && strcmp(unl[1], e2)) ok = 0;
    for (i = 0; i < (size_t) nunl && i < 2; i++) if (unlres[i] && unlres[i] != ENOENT) { hard = (int) i; break; }
    if (ok) {
      if (hard >= 0) { if (nunl != hard + 1 || resp[0] != '!') ok = 0; }
      else if (nunl != 2 || resp[0] != '+') ok = 0;
    }
    if (!ok) {
      if (cls == CL_OVERFLOW) snprintf(key, sizeof key, "C18/clean/number-overflow-acted");
      else if (nunl && (strcmp(unl[0], e1) || (nunl > 1 && strcmp(unl[1], e2)) || nunl > 2))
        snprintf(key, sizeof key, "C18/clean/wrong-path/%s", todo ? "todo" : "foop");
      else snprintf(key, sizeof key, "C18/clean/valid-request-mishandled/%s", todo ? "todo" : "foop");
      viol(key, "valid-request-must-unlink-exactly-its-two-files-in-order-and-answer-plus-or-bang-on-error");
      return;
    }
    nvalid++; nacted += nunl; if (resp[0] == '!') nbang++;
  }
}

static char h_inbuf[256], h_outbuf[256];
static void run_stream(void)
{
  spos = 0; reqstart = 0; active = 0;
  substdio_fdbuf(subfdinsmall, rd, 0, h_inbuf, sizeof h_inbuf);      /* same sizes as subfdins.c / subfdouts.c */
  substdio_fdbuf(subfdoutsmall, wr, 1, h_outbuf, sizeof h_outbuf);
  exited = 0;
  if (!setjmp(jb)) { exitcode = nqv_clean_main(); }
  substdio_flush(subfdoutsmall);
  if (active) { judge(); active = 0; }
  if (exited || exitcode != 0) {
    char w[64]; snprintf(w, sizeof w, "exit-%d", exitcode);
    nqv_violation("C18/clean/died", w, stream, slen < 200 ? slen : 200, (unsigned char *) "", 0);
  }
  slen = 0;
}

static void put_req(const unsigned char *r, size_t n)
{
  if (slen + n + 1 > MAXSTREAM - 4096) run_stream();
  memcpy(stream + slen, r, n); slen += n; stream[slen++] = 0;
}

/* ---- workloads ------------------------------------------------------------------------------------ */
static const unsigned char AL[] = { '0', '7', '/', '.', 'a', 0x00, 0xff, '1' };
#define NAL 8

static unsigned char prefixes[6000][8]; static int preflen[6000]; static int npref;
static void add_prefix(const unsigned char *p, int n) { memcpy(prefixes[npref], p, n); preflen[npref] = n; npref++; }

static void build_prefixes(int thorough)
{
  static const char *base[2] = { "foop/", "todo/" };
  static const unsigned char few[] = { 0x00, '/', '.', '0', 'a', 'X', 0xff, 0x80, ' ', '\n' };
  int b, pos, v, t;
  for (b = 0; b < 2; b++) {
    unsigned char p[8];
    add_prefix((const unsigned char *) base[b], 5);
    for (t = 0; t < 5; t++) add_prefix((const unsigned char *) base[b], t);      /* truncated */
    for (pos = 0; pos < 5; pos++) {
      if (thorough) {
        for (v = 0; v < 256; v++) if (v != (unsigned char) base[b][pos]) { memcpy(p, base[b], 5); p[pos] = v; add_prefix(p, 5); }
      } else {
        unsigned char o = base[b][pos];
        unsigned char more[3]; more[0] = o ^ 0x20; more[1] = o + 1; more[2] = o - 1;
        for (v = 0; v < (int) sizeof few; v++) if (few[v] != o) { memcpy(p, base[b], 5); p[pos] = few[v]; add_prefix(p, 5); }
        for (v = 0; v < 3; v++) { memcpy(p, base[b], 5); p[pos] = more[v]; add_prefix(p, 5); }
      }
    }
    /* keyword of the other command's directory, swapped and doubled */
    add_prefix((const unsigned char *) (b ? "todo//" : "foop//"), 6);
    add_prefix((const unsigned char *) (b ? "/todo/" : "/foop/"), 6);
  }
  add_prefix((const unsigned char *) "intd/", 5); add_prefix((const unsigned char *) "mess/", 5);
  add_prefix((const unsigned char *) "info/", 5); add_prefix((const unsigned char *) "FOOP/", 5);
  add_prefix((const unsigned char *) "TODO/", 5); add_prefix((const unsigned char *) "../", 3);
}

static void enum_prefix(int pi, int maxsuf)
{
  unsigned char r[32]; int len; long k, n;
  memcpy(r, prefixes[pi], preflen[pi]);
  for (len = 0; len <= maxsuf; len++) {
    for (n = 1, k = 0; k < len; k++) n *= NAL;
    for (k = 0; k < n; k++) {
      long x = k; int i;
      for (i = 0; i < len; i++) { r[preflen[pi] + i] = AL[x % NAL]; x /= NAL; }
      put_req(r, preflen[pi] + len);
    }
  }
}

static void digits_workload(void)
{
  static const char *special[] = {
    "0", "00", "000000", "1", "23", "007", "4294967295", "4294967296", "4294967297",
    "9223372036854775807", "9223372036854775808", "9999999999999999999", "10000000000000000000",
    "18446744073709551614", "18446744073709551615", "18446744073709551616", "18446744073709551617",
    "18446744073709551639", "18446744073709551716", "36893488147419103233", "184467440737095516160",
    "184467440737095516161", "340282366920938463463374607431768211457", "00000000000000000000000000000000000000000007",
    "000000000000000000018446744073709551617", 0 };
  unsigned char r[200]; int d, i, k, b;
  for (b = 0; b < 2; b++) {
    memcpy(r, b ? "todo/" : "foop/", 5);
    for (i = 0; special[i]; i++) { size_t l = strlen(special[i]); memcpy(r + 5, special[i], l); put_req(r, 5 + l); }
    for (d = 1; d <= 120; d++)
      for (k = 0; k < 6; k++) {
        for (i = 0; i < d; i++) r[5 + i] = '0' + (unsigned) ((i * 7 + d + k * 3) % 10);
        if (k == 1) r[5] = '1';
        if (k == 2) for (i = 0; i < d; i++) r[5 + i] = '9';
        if (k == 3) { for (i = 0; i < d; i++) r[5 + i] = '0'; r[5 + d - 1] = '1' + (d % 9); }
        if (k == 4 && d >= 20) { memset(r + 5, '0', d); memcpy(r + 5 + d - 20, "18446744073709551617", 20); r[5 + d - 1] = '0' + (d % 10); }
        if (k == 5 && d >= 21) { memcpy(r + 5 + d - 20, "18446744073709551616", 20); r[5] = '1' + d % 9; r[5 + d - 1] = '1' + (d % 8); }
        put_req(r, 5 + d);
      }
  }
}

static void rand_workload(long long n)
{
  unsigned char r[160]; long long k;
  for (k = 0; k < n; k++) {
    unsigned w = nqv_rand() % 8, len, i;
    if (w < 3) {            /* near-valid */
      unsigned d = nqv_rand() % 4 ? 1 + nqv_rand() % 22 : 1 + nqv_rand() % 110;
      memcpy(r, (nqv_rand() & 1) ? "todo/" : "foop/", 5);
      for (i = 0; i < d; i++) r[5 + i] = '0' + nqv_rand() % 10;
      len = 5 + d;
      if (w == 1) r[nqv_rand() % len] = (unsigned char) nqv_rand();
      if (w == 2 && len > 6) r[5 + nqv_rand() % (len - 5)] = "/.-+ a\xff\n"[nqv_rand() % 8];
    } else if (w < 5) {     /* boundary lengths */
      static const unsigned L[] = { 5, 6, 7, 98, 99, 100, 101, 119, 120 };
      len = L[nqv_rand() % 9];
      memcpy(r, (nqv_rand() & 1) ? "todo/" : "foop/", 5);
      for (i = 5; i < len; i++) r[i] = '0' + (nqv_rand() % 16 ? 0 : nqv_rand() % 10);
    } else {                /* arbitrary bytes, NULs included (they end the request early) */
      len = nqv_rand() % 121;
      for (i = 0; i < len; i++) r[i] = (nqv_rand() % 4) ? "fop/tdo0123456789"[nqv_rand() % 17] : (unsigned char) nqv_rand();
    }
    put_req(r, len);
  }
}

int main(int argc, char **argv)
{
  int i;
  if (argc < 2) return 2;
  nqv_init();
  stream = malloc(MAXSTREAM);
  if (!stream) return 2;
  if (!strcmp(argv[1], "enum") && argc >= 5) {
    int thorough = !strcmp(argv[2], "thorough"), part = atoi(argv[3]), nparts = atoi(argv[4]);
    build_prefixes(thorough);
    nqv_srand(part + 1);
    for (i = 0; i < npref; i++) if (i % nparts == part) {
      enum_prefix(i, 5);
      chunkmode = (i / nparts) & 1;
    }
    /* the two exact keywords: one (thorough: two) more suffix position, split over the parts by first symbol */
    if (part < NAL) for (i = 0; i < 2; i++) {
      unsigned char p[8]; int b = npref;
      memcpy(p, i ? "todo/" : "foop/", 5); p[5] = AL[part];
      add_prefix(p, 6); enum_prefix(b, thorough ? 6 : 5); npref = b;
    }
    if (part == 0) nqv_counter("clean_harness_prefixes", npref);
  } else if (!strcmp(argv[1], "digits")) {
    digits_workload(); run_stream();
    chunkmode = 1; nqv_srand(7); digits_workload();
  } else if (!strcmp(argv[1], "rand") && argc >= 4) {
    long long n = atoll(argv[2]);
    nqv_srand(strtoull(argv[3], 0, 10));
    chunkmode = 0; rand_workload(n / 2); run_stream();
    chunkmode = 1; rand_workload(n - n / 2);
  } else return 2;
  /* an incomplete request at the end of the input must be ignored */
  { static const unsigned char t[] = "foop/12"; memcpy(stream + slen, t, 7); slen += 7; }
  run_stream();
  if (orphan_events) nqv_violation("C18/clean/acted-without-request", "unlink-or-response-outside-any-request", (unsigned char *) "", 0, (unsigned char *) "", 0);
  nqv_counter("cases", cases);
  nqv_counter("distinct_nontrivial_inputs", nqv_dcount);
  nqv_counter("clean_requests_valid_handled", nvalid);
  nqv_counter("clean_requests_ge_1e19_refused", nrefusable);
  nqv_counter("clean_requests_invalid_refused", ninvalid);
  nqv_counter("clean_unlinks_observed", nacted);
  nqv_counter("clean_unlink_errors_answered_bang", nbang);
  for (i = 0; i < 6; i++) { char nm[64]; snprintf(nm, sizeof nm, "clean_class_%s", clsname[i]); nqv_counter(nm, cls_count[i]); }
  nqv_finish();
  return 0;
}
