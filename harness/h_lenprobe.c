/* C20 length-arithmetic probes.  The guards in the growth primitives cannot be reached by
   honest input of feasible size (it would take 2-4 GB), so every primitive of the real objects
   is called with FABRICATED len / a / n values around 2^31 and 2^32-k:
     stralloc_readyplus / stralloc_ready / stralloc_catb / stralloc_copyb / stralloc_append /
     stralloc_cat / stralloc_cats, token822_readyplus / token822_ready / token822_append,
     ipalloc_readyplus / ipalloc_append, prioq_readyplus (through prioq_insert too),
     saa_readyplus (the tree's GEN_ALLOC_readyplus instantiated exactly as qmail-remote.c and
     qmail-inject.c do), quote() (its doit()).
   Oracle for a *_ready(x,n) / *_readyplus(x,n) call, need = n (+ len for readyplus) computed in 64 bits:
     need > UINT_MAX            -> must return 0 with errno == ENOMEM                (key .../wrapped-length-accepted)
     returns 1                  -> x->a >= need                                       (key .../capacity-below-request)
                                   and, if the storage was (re)allocated, the allocation really has
                                   a * sizeof(element) bytes (__sanitizer_get_allocated_size)   (key .../allocation-smaller-than-capacity)
     returns 0                  -> errno == ENOMEM                                    (key .../refusal-without-ENOMEM)
   A refusal is always acceptable.  For the copying primitives (catb, copyb, append, cat, cats, quote, *_append) the
   request is chosen so that an honest implementation MUST refuse; one that does not copies through a wrapped
   length and runs into an ASan red zone (the harness dies; c20.py keys the report).
   Output: nqvh.h protocol; "P <probe>" lines mark progress (the last one names the probe that crashed). */
#include <errno.h>
#include <limits.h>
#include <sanitizer/allocator_interface.h>
#include "nqvh.h"
#include "stralloc.h"
#include "token822.h"
#include "ipalloc.h"
#include "prioq.h"
#include "quote.h"
#include "gen_allocdefs.h"

GEN_ALLOC_typedef(saa, stralloc, sa, len, a)
GEN_ALLOC_readyplus(saa, stralloc, sa, len, a, 10, saa_readyplus)

extern int token822_readyplus(), token822_ready(), token822_append();
extern int ipalloc_readyplus(), ipalloc_append();
extern int prioq_readyplus();

static long long cases, refused, granted, must_refuse;
static void mark(const char *p) { nqv_init(); fprintf(nqv_o, "P %s\n", p); fflush(nqv_o); }

static void viol(const char *prim, const char *rule, unsigned len, unsigned a, unsigned n, int r, int e)
{
  char key[96], in[96], out[48];
  snprintf(key, sizeof key, "C20/lenprobe/%s/%s", prim, rule);
  snprintf(in, sizeof in, "len=%u a=%u n=%u", len, a, n);
  snprintf(out, sizeof out, "ret=%d errno=%d", r, e);
  nqv_violation(key, rule, (unsigned char *) in, strlen(in), (unsigned char *) out, strlen(out));
}

static const unsigned VALS[] = {
  0u, 1u, 2u, 29u, 30u, 31u, 64u, 65u, 1000u,
  0x0aaaaaaau, 0x0ccccccbu, 0x0ccccccdu, 0x0e38e38du, 0x0e38e38eu, 0x0e38e390u, 0x0fffffffu, 0x10000000u, 0x10000001u,
  0x15555555u, 0x15555556u, 0x1c71c71cu, 0x1fffffffu, 0x20000000u, 0x20000001u,
  0x38e38e38u, 0x38e38e39u, 0x3fffffffu, 0x40000000u, 0x55555555u, 0x71c71c71u, 0x71c71c72u,
  0x7fffffe0u, 0x7ffffffeu, 0x7fffffffu, 0x80000000u, 0x80000001u, 0x80000020u,
  0xe38e38e0u, 0xe38e38e3u, 0xe38e38e4u, 0xe38e38f0u, 0xfffffefeu, 0xffffff00u, 0xffffffbfu, 0xffffffc0u, 0xffffffdfu, 0xffffffe0u,
  0xffffffe1u, 0xfffffff0u, 0xfffffffdu, 0xfffffffeu, 0xffffffffu
};
#define NVALS (sizeof VALS / sizeof VALS[0])

/* generic ready/readyplus probe over a gen_alloc object seen as {void *field; unsigned len; unsigned a;} */
struct ga { void *field; unsigned int len; unsigned int a; };

static void probe_one(const char *prim, int (*fn)(), size_t esize, int plus, int with_storage, unsigned len0, unsigned n, int k)
{
  struct ga x; unsigned a0; void *p0; int r, e; unsigned long long need;
  if (with_storage) {
    if (k && len0 > 64) return;                      /* len <= a is the object's own invariant: do not fabricate against it */
    x.field = malloc(64 * esize);
    if (!x.field) exit(3);
    a0 = k ? 64 : (len0 > 64 ? len0 : 64);          /* honest small capacity, or a capacity consistent with the fabricated len */
  } else { x.field = 0; a0 = 0; if (k) return; }
  x.len = len0; x.a = a0; p0 = x.field;
  errno = 0;
  r = fn(&x, n); e = errno;
  cases++;
  need = (unsigned long long) n + ((plus && with_storage) ? len0 : 0);
  nqv_distinct_h(nqv_fnv((unsigned char *) prim, strlen(prim)) ^ ((uint64_t) len0 << 32 | n) * 0x9E3779B97F4A7C15ULL ^ (k + 3 * (uint64_t) with_storage));
  if (need > UINT_MAX) {
    must_refuse++;
    if (r) { viol(prim, "wrapped-length-accepted", len0, a0, n, r, e); if (x.field) free(x.field); return; }
  }
  if (r) {
    granted++;
    if ((unsigned long long) x.a < need) viol(prim, "capacity-below-request", len0, a0, n, r, e);
    else if (x.field != p0 || x.a != a0) {
      size_t have = x.field ? __sanitizer_get_allocated_size(x.field) : 0;
      if ((unsigned long long) have < (unsigned long long) x.a * esize) viol(prim, "allocation-smaller-than-capacity", len0, a0, n, r, e);
    }
  } else {
    refused++;
    if (e != ENOMEM) viol(prim, "refusal-without-ENOMEM", len0, a0, n, r, e);
  }
  if (x.field) free(x.field);
}

static void probe_ready(const char *prim, int (*fn)(), size_t esize, int plus, int with_storage)
{
  static const unsigned SMALL[] = { 0u, 1u, 64u };
  size_t i, j; int k, m, dd;
  mark(prim);
  for (i = 0; i < NVALS; i++) for (j = 0; j < NVALS; j++) for (k = 0; k < 2; k++)
    probe_one(prim, fn, esize, plus, with_storage, VALS[i], VALS[j], k);
  /* requests whose byte size wraps to something small: element counts around m * 2^32 / sizeof(element), taken
     directly (first allocation) and through the growth formula n + n/8 + base (base <= 130) */
  for (m = 1; m <= 4; m++) {
    unsigned long long T = ((unsigned long long) m << 32) / esize;
    for (dd = -140; dd <= 12; dd++) {
      unsigned long long direct = T + dd, grown = ((T + dd) * 8) / 9;
      for (i = 0; i < 3; i++) {
        if (direct <= UINT_MAX && dd >= -4) { probe_one(prim, fn, esize, plus, with_storage, SMALL[i], (unsigned) direct, 0); probe_one(prim, fn, esize, plus, with_storage, SMALL[i], (unsigned) direct, 1); }
        if (grown <= UINT_MAX) { probe_one(prim, fn, esize, plus, with_storage, SMALL[i], (unsigned) grown, 0); probe_one(prim, fn, esize, plus, with_storage, SMALL[i], (unsigned) grown, 1); }
      }
    }
  }
}

/* copying primitives: only requests an honest implementation must refuse */
static char src[64] = " 23456789012345678901234567890123456789012345678901234567890123";

static void expect_refusal(const char *prim, unsigned len, unsigned a, unsigned n, int r, int e)
{
  cases++; must_refuse++;
  nqv_distinct_h(nqv_fnv((unsigned char *) prim, strlen(prim)) ^ ((uint64_t) len << 32 | n) * 0x9E3779B97F4A7C15ULL);
  if (r) viol(prim, "wrapped-length-accepted", len, a, n, r, e);
  else { refused++; if (e != ENOMEM) viol(prim, "refusal-without-ENOMEM", len, a, n, r, e); }
}

static void probe_copy(void)
{
  static const unsigned BIG[] = { 0x80000000u, 0xc0000000u, 0xffffff00u, 0xffffffc0u, 0xffffffe0u, 0xfffffff0u, 0xfffffffeu, 0xffffffffu };
  size_t i; int r, e; stralloc sa, sb;
  mark("stralloc_catb");
  for (i = 0; i < sizeof BIG / sizeof BIG[0]; i++) {
    unsigned len = BIG[i], n;
    /* len + n + 1 > UINT_MAX */
    for (n = 16; n <= 64; n += 16) {
      if ((unsigned long long) len + n + 1 <= UINT_MAX) continue;
      sa.s = malloc(64); sa.len = len; sa.a = len; errno = 0;
      r = stralloc_catb(&sa, src, n); e = errno; expect_refusal("stralloc_catb", len, len, n, r, e); free(sa.s);
    }
  }
  /* n + 1 wraps */
  sa.s = malloc(64); sa.len = 8; sa.a = 64; errno = 0;
  r = stralloc_catb(&sa, src, 0xffffffffu); e = errno; expect_refusal("stralloc_catb", 8, 64, 0xffffffffu, r, e); free(sa.s);
  sa.s = malloc(64); sa.len = 0; sa.a = 64; errno = 0;
  r = stralloc_catb(&sa, src, 0xffffffffu); e = errno; expect_refusal("stralloc_catb", 0, 64, 0xffffffffu, r, e); free(sa.s);
  mark("stralloc_copyb");
  sa.s = malloc(64); sa.len = 8; sa.a = 64; errno = 0;
  r = stralloc_copyb(&sa, src, 0xffffffffu); e = errno; expect_refusal("stralloc_copyb", 8, 64, 0xffffffffu, r, e); free(sa.s);
  sa.s = 0; sa.len = 0; sa.a = 0; errno = 0;
  r = stralloc_copyb(&sa, src, 0xffffffffu); e = errno; expect_refusal("stralloc_copyb", 0, 0, 0xffffffffu, r, e); if (sa.s) free(sa.s);
  mark("stralloc_append");
  sa.s = malloc(64); sa.len = 0xffffffffu; sa.a = 0xffffffffu; errno = 0;
  r = stralloc_append(&sa, "x"); e = errno; expect_refusal("stralloc_append", 0xffffffffu, 0xffffffffu, 1, r, e); free(sa.s);
  mark("stralloc_cat");
  for (i = 0; i < sizeof BIG / sizeof BIG[0]; i++) {
    unsigned len = BIG[i];
    if ((unsigned long long) len + 40 + 1 <= UINT_MAX) continue;
    sa.s = malloc(64); sa.len = len; sa.a = len; sb.s = src; sb.len = 40; sb.a = 64; errno = 0;
    r = stralloc_cat(&sa, &sb); e = errno; expect_refusal("stralloc_cat", len, len, 40, r, e); free(sa.s);
    sa.s = malloc(64); sa.len = len; sa.a = len; errno = 0;
    r = stralloc_cats(&sa, src); e = errno; expect_refusal("stralloc_cats", len, len, 63, r, e); free(sa.s);
  }
  /* source length fabricated: cat of a "4 GB" source */
  sa.s = malloc(64); sa.len = 4; sa.a = 64; sb.s = src; sb.len = 0xffffffffu; sb.a = 0xffffffffu; errno = 0;
  r = stralloc_cat(&sa, &sb); e = errno; expect_refusal("stralloc_cat", 4, 64, 0xffffffffu, r, e); free(sa.s);
  mark("quote");
  {
    static const unsigned QL[] = { 0x7fffffffu, 0x80000000u, 0x80000001u, 0xc0000000u, 0xfffffffeu, 0xffffffffu };
    for (i = 0; i < sizeof QL / sizeof QL[0]; i++) {
      stralloc out = { 0 };
      sb.s = src; sb.len = QL[i]; sb.a = QL[i];      /* src[0] is a space: quote_need() says yes at once, doit() sizes 2*len+2 */
      errno = 0;
      r = quote(&out, &sb); e = errno; expect_refusal("quote", QL[i], QL[i], 0, r, e);
      if (out.s) free(out.s);
    }
  }
  mark("token822_append");
  {
    token822_alloc ta; struct token822 t; t.type = 1; t.s = src; t.slen = 1;
    ta.t = malloc(64 * sizeof(struct token822)); ta.len = 0xffffffffu; ta.a = 0xffffffffu; errno = 0;
    r = token822_append(&ta, &t); e = errno; expect_refusal("token822_append", 0xffffffffu, 0xffffffffu, 1, r, e); free(ta.t);
  }
  mark("ipalloc_append");
  {
    ipalloc ia; struct ip_mx ix; memset(&ix, 0, sizeof ix);
    ia.ix = malloc(64 * sizeof(struct ip_mx)); ia.len = 0xffffffffu; ia.a = 0xffffffffu; errno = 0;
    r = ipalloc_append(&ia, &ix); e = errno; expect_refusal("ipalloc_append", 0xffffffffu, 0xffffffffu, 1, r, e); free(ia.ix);
  }
  mark("prioq_insert");
  {
    prioq pq; struct prioq_elt pe; pe.dt = 1; pe.id = 1;
    pq.p = malloc(64 * sizeof(struct prioq_elt)); pq.len = 0xffffffffu; pq.a = 0xffffffffu; errno = 0;
    r = prioq_insert(&pq, &pe); e = errno; expect_refusal("prioq_insert", 0xffffffffu, 0xffffffffu, 1, r, e); free(pq.p);
  }
}

int main(void)
{
  nqv_init();
  probe_ready("stralloc_readyplus", stralloc_readyplus, 1, 1, 1);
  probe_ready("stralloc_readyplus-unallocated", stralloc_readyplus, 1, 1, 0);
  probe_ready("stralloc_ready", stralloc_ready, 1, 0, 1);
  probe_ready("stralloc_ready-unallocated", stralloc_ready, 1, 0, 0);
  probe_ready("token822_readyplus", token822_readyplus, sizeof(struct token822), 1, 1);
  probe_ready("token822_readyplus-unallocated", token822_readyplus, sizeof(struct token822), 1, 0);
  probe_ready("token822_ready", token822_ready, sizeof(struct token822), 0, 1);
  probe_ready("token822_ready-unallocated", token822_ready, sizeof(struct token822), 0, 0);
  probe_ready("ipalloc_readyplus", ipalloc_readyplus, sizeof(struct ip_mx), 1, 1);
  probe_ready("ipalloc_readyplus-unallocated", ipalloc_readyplus, sizeof(struct ip_mx), 1, 0);
  probe_ready("prioq_readyplus", prioq_readyplus, sizeof(struct prioq_elt), 1, 1);
  probe_ready("prioq_readyplus-unallocated", prioq_readyplus, sizeof(struct prioq_elt), 1, 0);
  probe_ready("saa_readyplus", saa_readyplus, sizeof(stralloc), 1, 1);
  probe_ready("saa_readyplus-unallocated", saa_readyplus, sizeof(stralloc), 1, 0);
  probe_copy();
  mark("done");
  nqv_counter("cases", cases);
  nqv_counter("lenprobe_must_refuse", must_refuse);
  nqv_counter("lenprobe_refused", refused);
  nqv_counter("lenprobe_granted", granted);
  nqv_counter("distinct_nontrivial_inputs", nqv_dcount);
  nqv_finish();
  return 0;
}
