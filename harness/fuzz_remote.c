/* C20 target 7: qmail-remote on hostile server replies.  Real qmail-remote.c: smtp() (and
   through it smtpcode(), get(), outsmtptext(), quit(), blast()) with timeoutread serving the
   fuzz input as the server's byte stream, timeoutwrite and the report channel being sinks.
   Input: <server bytes> <selector byte>: bits 0-1 read chunking, bits 2-3 number of
   recipients - 1, bit 4 message variant. */
#include "fuzz_common.h"
#include "substdio.h"
static char fz_obuf[256];
static substdio fz_sso = SUBSTDIO_FDBUF(fz_write, 1, fz_obuf, sizeof fz_obuf);
substdio *subfdoutsmall = &fz_sso;

#define _exit(x) fz_exit(x)
#define main nqv_remote_main
#include "qmail-remote.c"
#undef main
#undef _exit

ssize_t timeoutread(int t, int fd, char *b, size_t n) { (void) t; return fz_read(fd, b, n); }
ssize_t timeoutwrite(int t, int fd, const void *b, size_t n) { (void) t; return fz_write(fd, b, n); }

static const char *msg; static size_t msglen, msgoff;
static ssize_t msg_read(int fd, void *b, size_t n)
{
  size_t k = msglen - msgoff; (void) fd;
  if (n < k) k = n;
  memcpy(b, msg + msgoff, k); msgoff += k; return (ssize_t) k;
}
static const char M0[] = "Subject: s\n\nbody\n";
static char M1[6000];

static const int allowed[] = { 0, -1 };

int LLVMFuzzerInitialize(int *argc, char ***argv)
{
  int i;
  (void) argc; (void) argv;
  fz_setup("remote-smtp");
  fz_extra_name[0] = "reached_data_phase";
  for (i = 0; i < (int) sizeof M1 - 1; i++) M1[i] = (i % 1100 == 1099) ? '\n' : (i % 97 == 0) ? '.' : (i % 53 == 0) ? '\r' : 'x';
  M1[0] = '.'; M1[sizeof M1 - 2] = '\n'; M1[sizeof M1 - 1] = 0;
  if (!stralloc_copys(&helohost, "client.test")) abort();
  if (!stralloc_copys(&sender, "\"s s\"@client.test")) abort();
  return 0;
}

int LLVMFuzzerTestOneInput(const uint8_t *data, size_t size)
{
  unsigned sel = size ? data[size - 1] : 0;
  static const unsigned chunks[4] = { 0, 1, 7, 100 };
  static const char *rc[4] = { "r1@remote.test", "\"r 2\"@remote.test", "r3@[10.0.0.1]", "r4" };
  volatile int exited = 0; unsigned nr = ((sel >> 2) & 3) + 1, i;
  if (size) size--;
  fz_in = data; fz_inlen = size; fz_inoff = 0; fz_chunk = chunks[sel & 3]; fz_endless = 0;
  if (sel & 16) { msg = M1; msglen = sizeof M1 - 1; } else { msg = M0; msglen = sizeof M0 - 1; }
  msgoff = 0;
  {
    substdio a = SUBSTDIO_FDBUF(msg_read, -1, inbuf, sizeof inbuf);
    substdio b = SUBSTDIO_FDBUF(safewrite, -1, smtptobuf, sizeof smtptobuf);
    substdio c = SUBSTDIO_FDBUF(saferead, -1, smtpfrombuf, sizeof smtpfrombuf);
    ssin = a; smtpto = b; smtpfrom = c;
  }
  fz_sso.p = 0;
  flagcritical = 0; FZ_FRESH(smtptext);
  partner.d[0] = 10; partner.d[1] = 1; partner.d[2] = 2; partner.d[3] = 3;
  if (!saa_readyplus(&reciplist, 4)) abort();
  if (!reciplist.len) for (i = 0; i < 4; i++) { reciplist.sa[i] = sauninit; if (!stralloc_copys(&reciplist.sa[i], rc[i])) abort(); }
  reciplist.len = nr;
  if (!setjmp(fz_jb)) smtp(); else exited = 1;
  if (flagcritical || msgoff) fz_extra[0]++;
  fz_outcome(exited, allowed, 0);
  return 0;
}
