/* C20 target 1: qmail-smtpd command/DATA stream.  Real qmail-smtpd.c; timeoutread is the
   fuzz input, timeoutwrite a sink, the qmail-queue client a stub.  setup()/ipme_init() run
   once against $NQV_HOME/control; every input is one connection: greeting + commands().
   Input: <stream bytes> <1 selector byte at the end>:
     bits 0-1 read chunking (whole / 1 byte / 7 bytes / 200 bytes), bit 2 RELAYCLIENT="" ,
     bit 3 RELAYCLIENT="@relay.test", bits 4-5 databytes (0 / 0 / 64 / 100000),
     bits 6-7 qmail-queue verdict ("" / "" / "Dperm" / "Ztemp"). */
#define FZ_WANT_QMAIL_STUBS
#include "fuzz_common.h"
#define _exit(x) fz_exit(x)
#define main nqv_smtpd_main
#include "qmail-smtpd.c"
#include "commands.c"                   /* the tree's command reader, included to reach its static line buffer */
#undef main
#undef _exit

ssize_t timeoutread(int t, int fd, char *b, size_t n) { (void) t; return fz_read(fd, b, n); }
ssize_t timeoutwrite(int t, int fd, const void *b, size_t n) { (void) t; return fz_write(fd, b, n); }

static const int allowed[] = { 0, 1, -1 };
static unsigned int databytes0;

int LLVMFuzzerInitialize(int *argc, char ***argv)
{
  (void) argc; (void) argv;
  fz_setup("smtpd");
  if (chdir(auto_qmail) == -1) { fprintf(stderr, "fuzz_smtpd: NQV_HOME not usable\n"); exit(3); }
  if (setjmp(fz_jb)) { fprintf(stderr, "fuzz_smtpd: setup() exited %d\n", fz_exitcode); exit(3); }
  setup();
  if (ipme_init() != 1) { fprintf(stderr, "fuzz_smtpd: ipme_init failed\n"); exit(3); }
  databytes0 = databytes;
  return 0;
}

int LLVMFuzzerTestOneInput(const uint8_t *data, size_t size)
{
  unsigned sel = size ? data[size - 1] : 0;
  static const unsigned chunks[4] = { 0, 1, 7, 200 };
  volatile int exited = 0;
  if (size) size--;
  fz_in = data; fz_inlen = size; fz_inoff = 0; fz_chunk = chunks[sel & 3]; fz_endless = 0;
  relayclient = (sel & 4) ? (char *) "" : (sel & 8) ? (char *) "@relay.test" : 0;
  databytes = ((sel >> 4) & 3) == 2 ? 64 : ((sel >> 4) & 3) == 3 ? 100000 : databytes0;
  fz_qq_result = ((sel >> 6) & 3) == 2 ? "Dperm (stub)" : ((sel >> 6) & 3) == 3 ? "Ztemp (stub)" : "";
  seenmail = 0; flagbarf = 0; bytestooverflow = 0;
  FZ_FRESH(addr); FZ_FRESH(mailfrom); FZ_FRESH(rcptto); FZ_FRESH(helohost); FZ_FRESH(cmd);
  ssin.p = 0; ssin.n = sizeof ssinbuf; ssout.p = 0;
  if (!setjmp(fz_jb)) {
    dohelo(remotehost);
    smtp_greet("220 ");
    out(" ESMTP\r\n");
    if (commands(&ssin, &smtpcommands) == 0) die_read();
    die_nomem();
  } else exited = 1;
  fz_outcome(exited, allowed, 0);
  fz_fd_sweep();
  return 0;
}
