/* C20 target 3: qmail-qmqpd netstring stream.  Real qmail-qmqpd.c; see fuzz_qmtpd.c.
   Input: <stream> <selector byte>: bits 0-1 chunking, bits 6-7 qmail-queue verdict. */
#define FZ_WANT_QMAIL_STUBS
#include "fuzz_common.h"
#define _exit(x) fz_exit(x)
#define read fz_read
#define write fz_write
#define alarm(x) 0
#include "sig.h"
#define sig_alarmcatch(f) ((void) 0)      /* SIGALRM belongs to libFuzzer's -timeout */
#define main nqv_qmqpd_main
#include "qmail-qmqpd.c"
#undef main
#undef read
#undef write
#undef _exit

static const int allowed[] = { 0, 100, 111, -1 };
static int longhaul;

int LLVMFuzzerInitialize(int *argc, char ***argv)
{
  (void) argc; (void) argv;
  fz_setup("qmqpd");
  longhaul = getenv("NQV_FZ_LONGHAUL") != 0;
  return 0;
}

int LLVMFuzzerTestOneInput(const uint8_t *data, size_t size)
{
  unsigned sel = size ? data[size - 1] : 0;
  static const unsigned chunks[4] = { 0, 1, 7, 200 };
  volatile int exited = 0;
  if (size) size--;
  fz_in = data; fz_inlen = size; fz_inoff = 0; fz_chunk = chunks[sel & 3]; fz_endless = longhaul;
  fz_qq_result = ((sel >> 6) & 3) == 2 ? "Dperm (stub)" : ((sel >> 6) & 3) == 3 ? "Ztemp (stub)" : "";
  ssin.p = 0; ssin.n = sizeof ssinbuf; ssout.p = 0; bytesleft = 100; flagok = 1;
  if (!setjmp(fz_jb)) nqv_qmqpd_main(); else exited = 1;
  fz_outcome(exited, allowed, 0);
  fz_fd_sweep();
  return 0;
}
