/* C20 target 9b: control_readline / control_rldef / control_readint / control_readfile and
   constmap_init / constmap on arbitrary control-file bytes.  Real control.o / constmap.o /
   getln.a of the tree; the file is a memfd reached as /proc/self/fd/N.
   Input: <file bytes> <selector byte>: bit 0 flagcolon of constmap_init, bit 1 'me' fallback. */
#define _GNU_SOURCE
#include <sys/mman.h>
#include "fuzz_common.h"
#include "stralloc.h"
#include "constmap.h"
#include "control.c"                    /* the tree's control.c, included to reach its static line buffer */

static int mfd = -1; static char path[64];
static long lines_total, lookups, hits;

static void report_ctl(void) { fprintf(stderr, "NQVSTAT-CTL entries=%ld lookups=%ld hits=%ld\n", lines_total, lookups, hits); }

int LLVMFuzzerInitialize(int *argc, char ***argv)
{
  (void) argc; (void) argv;
  fz_setup("control");
  mfd = memfd_create("nqv-control", 0);
  if (mfd < 0) { perror("memfd_create"); exit(3); }
  snprintf(path, sizeof path, "/proc/self/fd/%d", mfd);
  atexit(report_ctl);
  return 0;
}

int LLVMFuzzerTestOneInput(const uint8_t *data, size_t size)
{
  static stralloc sa = { 0 }, sb = { 0 }, sc = { 0 };
  struct constmap cm; int r, iv = -7; unsigned sel = size ? data[size - 1] : 0; unsigned int i, start;
  if (size) size--;
  FZ_FRESH(sa); FZ_FRESH(sb); FZ_FRESH(sc); FZ_FRESH(line);
  if (ftruncate(mfd, 0) == -1 || pwrite(mfd, data, size, 0) != (ssize_t) size) { perror("memfd write"); exit(3); }
  r = control_readline(&sa, path);
  if (r == 1) fz_write(-1, sa.s, sa.len);
  r = control_rldef(&sb, path, (sel >> 1) & 1, "default.test");
  if (r == 1) fz_write(-1, sb.s, sb.len);
  r = control_readint(&iv, path);
  fz_write(-1, &iv, sizeof iv);
  r = control_readfile(&sc, path, (sel >> 1) & 1);
  if (r == 1) {
    fz_write(-1, sc.s, sc.len);
    if (constmap_init(&cm, sc.s, sc.len, sel & 1)) {
      lines_total += cm.num;
      /* (the value pointer is only meaningful with flagcolon: without it callers use it as a boolean) */
      /* look up every entry of the file itself (whole, key part, case-flipped) and a few strangers */
      for (start = 0, i = 0; i < sc.len; i++)
        if (!sc.s[i]) {
          unsigned int n = i - start, k; char *v; char tmp[64];
          v = constmap(&cm, sc.s + start, (int) n); lookups++; if (v) { hits++; if (sel & 1) fz_write(-1, v, strlen(v) + 1); }
          for (k = 0; k < n && sc.s[start + k] != ':'; k++) ;
          v = constmap(&cm, sc.s + start, (int) k); lookups++; if (v) { hits++; if (sel & 1) fz_write(-1, v, strlen(v) + 1); }
          if (n < sizeof tmp) { for (k = 0; k < n; k++) tmp[k] = sc.s[start + k] ^ 0x20; v = constmap(&cm, tmp, (int) n); lookups++; if (v) { hits++; if (sel & 1) fz_write(-1, v, strlen(v) + 1); } }
          start = i + 1;
        }
      constmap(&cm, "", 0); constmap(&cm, "stranger.test", 13); lookups += 2;
      constmap_free(&cm);
    }
  }
  fz_runs++; fz_exits[256]++;
  return 0;
}
