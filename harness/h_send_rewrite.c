/* C10 monitor, harness side: the real qmail-send.c (main renamed) with its control files
   loaded by the real getcontrols() / reread() from a generated sandbox home; rewrite() and
   senderadd() are called on a script of inputs and their results are printed for the
   reference model (nqv/refmodel/rewrite_model.py) to judge.

   usage: h_send_rewrite <home> <script>         (NQV_HOME must also be <home>: reread() uses auto_qmail)
   <script> is a sequence of NUL-terminated records, first byte = command:
     A<addr>     rewrite(addr)                    -> "r <channel> <hex of rwline>"
     s<sender>   remember the envelope sender for the next S
     S<recip>    senderadd(sa, sender, recip)     -> "s <hex of sa>"
     H<n>        control -> control.old<n>, control.<n> -> control, then the real reread()
                 (what the daemon does on SIGHUP)  -> "h <n>"
   The daemon's log (descriptor 0 in qmail-send) is pointed at stderr.
   exit 0 = script done; 3 = getcontrols() failed; 2 = usage / set-up problem. */
#include <unistd.h>
#include <stdio.h>
#include <stdlib.h>
#include <string.h>

#define main nqv_send_main
#include "qmail-send.c"
#undef main

static void hex(const char *s, unsigned int n)
{
  static const char h[] = "0123456789abcdef";
  unsigned int i;
  if (!n) { putchar('-'); return; }
  for (i = 0; i < n; i++) { putchar(h[(unsigned char) s[i] >> 4]); putchar(h[(unsigned char) s[i] & 15]); }
}

int main(int argc, char **argv)
{
  FILE *f; char *buf; long n, i; char *sender = 0;
  if (argc != 3) return 2;
  f = fopen(argv[2], "rb"); if (!f) return 2;
  fseek(f, 0, SEEK_END); n = ftell(f); fseek(f, 0, SEEK_SET);
  buf = malloc(n + 1); if (!buf) return 2;
  if (n && fread(buf, 1, n, f) != (size_t) n) return 2;
  fclose(f);
  buf[n] = 0;
  if (dup2(2, 0) == -1) return 2;                  /* qsutil.c logs to descriptor 0 */
  if (chdir(argv[1]) == -1) return 2;
  if (!getcontrols()) return 3;
  for (i = 0; i < n;) {
    char *rec = buf + i; size_t l = strlen(rec);
    i += l + 1;
    if (!l) continue;
    switch (rec[0]) {
      case 'A': {
        /* exact-size heap copy: rewrite() "may trash recip"; ASan sees any overrun */
        char *a = malloc(l); int r;
        memcpy(a, rec + 1, l);
        r = rewrite(a);
        printf("r %d ", r); hex(rwline.s, rwline.len); putchar('\n');
        free(a);
        break;
      }
      case 's':
        free(sender); sender = malloc(l); memcpy(sender, rec + 1, l);
        break;
      case 'S': {
        static stralloc sa = {0};
        char *a = malloc(l);
        memcpy(a, rec + 1, l);
        if (!sender) return 2;
        if (!stralloc_copys(&sa, "")) return 2;
        senderadd(&sa, sender, a);
        printf("s "); hex(sa.s, sa.len); putchar('\n');
        free(a);
        break;
      }
      case 'H': {
        char from[64], to[64];
        if (l > 20) return 2;
        snprintf(to, sizeof to, "control.old%s", rec + 1);
        snprintf(from, sizeof from, "control.%s", rec + 1);
        if (chdir(argv[1]) == -1) return 2;
        if (rename("control", to) == -1 || rename(from, "control") == -1) return 2;
        if (chdir("queue") == -1) return 2;        /* the daemon lives in queue/ when the signal arrives */
        reread();
        if (chdir(argv[1]) == -1) return 2;
        printf("h %s\n", rec + 1);
        break;
      }
      default:
        return 2;
    }
  }
  fflush(stdout);
  return 0;
}
