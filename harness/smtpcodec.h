/* Reference SMTP DATA decoder (RFC 5321 4.5.2) and the graded C06 comparison.
   Written from the RFC, not from the package's code.  Used by h_smtpd_blast.c (C05)
   and h_remote_blast.c (C06). */
#ifndef SMTPCODEC_H
#define SMTPCODEC_H
#include <string.h>
#include <stddef.h>

/* Decode the byte stream that follows "DATA" (stream start counts as "after CR LF").
   keepdot: 0 = strict 4.5.2 (a leading '.' followed by other characters is deleted);
            1 = the reading under which a line that starts ". CR <not LF>" keeps its dot
                (the statement does not settle this family for non-conforming senders;
                 both decodings are accepted, see DESIGN.md C05).
   returns  1  terminator found: *dl decoded length, *consumed bytes used incl. terminator
            0  a bare LF (LF not preceded by CR) occurs before the terminator
           -1  no terminator in the stream
   *amb is set when the ambiguous family occurs in a decoded line. */
static int ref_decode(const unsigned char *s, size_t n, unsigned char *dec, size_t *dl,
                      size_t *consumed, int keepdot, int *amb)
{
  size_t ls = 0, d = 0;
  if (amb) *amb = 0;
  for (;;) {
    size_t j = ls; int found = 0;
    while (j < n) {
      if (s[j] == '\n') {
        if (j > ls && s[j - 1] == '\r') { found = 1; break; }
        return 0;
      }
      j++;
    }
    if (!found) return -1;
    {
      size_t len = (j - 1) - ls; const unsigned char *l = s + ls;
      if (len == 1 && l[0] == '.') { *consumed = j + 1; *dl = d; return 1; }
      if (len > 0 && l[0] == '.') {
        int family = (len >= 2 && l[1] == '\r');
        if (family && amb) *amb = 1;
        if (!(family && keepdot)) { l++; len--; }
      }
      memcpy(dec + d, l, len); d += len; dec[d++] = '\n';
      ls = j + 1;
    }
  }
}

static size_t strip_crlf(const unsigned char *s, size_t n, unsigned char *t)
{
  size_t k = 0, i;
  for (i = 0; i < n; i++) if (s[i] != '\r' && s[i] != '\n') t[k++] = s[i];
  return k;
}

/* does every LF of a (input) correspond to an LF at the same content offset in b (decoded)? */
static int lf_boundaries_kept(const unsigned char *a, size_t an, const unsigned char *b, size_t bn)
{
  size_t i = 0, j = 0, ca = 0, cb = 0;
  for (i = 0; i < an; i++) {
    if (a[i] == '\r') continue;
    if (a[i] != '\n') { ca++; continue; }
    /* LF at content offset ca: find an LF in b at content offset ca */
    {
      int ok = 0;
      while (j < bn && cb < ca) { if (b[j] != '\r' && b[j] != '\n') cb++; j++; }
      /* now cb == ca (or b exhausted); scan the run of CR/LF bytes at this offset */
      {
        size_t k = j;
        while (k < bn && (b[k] == '\r' || b[k] == '\n')) { if (b[k] == '\n') ok = 1; k++; }
      }
      if (cb != ca || !ok) return 0;
    }
  }
  return 1;
}

/* Graded comparison between an original message `in` and what a conforming receiver
   decoded from the transmitted payload.  Returns NULL if fine, else a rule name. */
static const char *c06_grade(const unsigned char *in, size_t n, const unsigned char *dec, size_t dl,
                             unsigned char *tmp1, unsigned char *tmp2)
{
  int hascr = 0, bare = 0; size_t i;
  for (i = 0; i < n; i++) if (in[i] == '\r') { hascr = 1; if (i + 1 >= n || in[i + 1] != '\n') bare = 1; }
  if (!hascr) {
    if (dl != n || memcmp(dec, in, n)) return "crfree-not-identical";
    return 0;
  }
  if (!bare) {
    size_t k = 0;
    for (i = 0; i < n; i++) { if (in[i] == '\r') continue; tmp1[k++] = in[i]; }
    if (dl != k || memcmp(dec, tmp1, k)) return "crlf-input-mismatch";
    return 0;
  }
  {
    size_t xn = strip_crlf(in, n, tmp1), yn = strip_crlf(dec, dl, tmp2);
    if (xn != yn || memcmp(tmp1, tmp2, xn)) return "barecr-content-not-conserved";
    if (!lf_boundaries_kept(in, n, dec, dl)) return "barecr-line-boundary-lost";
  }
  return 0;
}
#endif
